module verif/harness

go 1.26

require (
	github.com/anishathalye/porcupine v1.3.0
	github.com/ozontech/seq-db v0.0.0
)

require (
	github.com/beorn7/perks v1.0.1 // indirect
	github.com/cespare/xxhash/v2 v2.3.0 // indirect
	github.com/munnerz/goautoneg v0.0.0-20191010083416-a7dc8b61c822 // indirect
	github.com/prometheus/client_golang v1.22.0 // indirect
	github.com/prometheus/client_model v0.6.1 // indirect
	github.com/prometheus/common v0.62.0 // indirect
	github.com/prometheus/procfs v0.15.1 // indirect
	go.uber.org/atomic v1.11.0 // indirect
	golang.org/x/sys v0.31.0 // indirect
	google.golang.org/protobuf v1.36.6 // indirect
)

replace github.com/ozontech/seq-db => /repo

// Package cachesim drives the real cache package (Cache + Cleaner) with seeded schedules of
// concurrent callers and one cleaner task, and checks coherence, accounting and boundedness.
package cachesim

import (
	"fmt"
	"sort"
	"sync"
	"testing"
	"time"

	"github.com/anishathalye/porcupine"

	"github.com/ozontech/seq-db/cache"
	"github.com/ozontech/seq-db/fracmanager"
	"github.com/ozontech/seq-db/verifsim"
)

// Op is one operation of a caller or of the cleaner task.
type Op struct {
	K     string `json:"k"` // get | geterr | release | newcache | rotate | cleanup | gc | sleep
	Cache int    `json:"c,omitempty"`
	Key   uint32 `json:"key,omitempty"`
	Size  int    `json:"size,omitempty"`
	Mode  string `json:"mode,omitempty"` // ok | panic | err (what the loader does if it runs)
	Yield int    `json:"yield,omitempty"` // scheduling points inside the loader
}

// Case is one explicit run.
type Case struct {
	Property  string   `json:"property"`
	Seed      uint64   `json:"seed"`
	SizeLimit uint64   `json:"size_limit"`
	// the cleaner comes from the store's wiring: the configuration (cache size, fraction size, optionally an
	// explicit sort cache size below 90% of the cache) goes through fracmanager.FillConfigWithDefault, and
	// fracmanager.NewCacheMaintainer splits the result over seven cleaners; the run uses cleaner number Pick
	Total    uint64 `json:"maintainer_total,omitempty"`
	Sort     uint64 `json:"maintainer_sort,omitempty"` // 0 = derived from FracSize
	FracSize uint64 `json:"maintainer_frac_size,omitempty"`
	Pick     int    `json:"maintainer_pick,omitempty"`
	NCaches   int      `json:"ncaches"`
	Callers   [][]Op   `json:"clients"`
	Cleaner   []Op     `json:"cleaner"`
	PSync     float64  `json:"p_sync"`
	PStmt     float64  `json:"p_stmt"`
	Schedule  []int    `json:"schedule,omitempty"`
}

type Violation struct {
	Clause string `json:"clause"`
	Detail string `json:"detail"`
}

type Result struct {
	Seed       uint64      `json:"seed"`
	Outcome    string      `json:"outcome"`
	Violations []Violation `json:"violations,omitempty"`
	Infra      string      `json:"infra,omitempty"`
	Steps      int         `json:"steps"`
	Switches   int         `json:"switches"`
	Hash       string      `json:"hash"`
	Schedule   []int       `json:"schedule,omitempty"`
	Probes     map[string]int `json:"probes,omitempty"`
	Trace      []string    `json:"trace,omitempty"`
	Inconclusive bool      `json:"porcupine_unknown,omitempty"`
	Ops        int         `json:"ops"`
}

type val struct {
	cache, inv int
	key        uint32
	finished   bool
}

type histEv struct {
	client     int
	cache      int
	key        uint32
	call, ret  int64
	ranLoader  bool
	loaderOK   bool
	inv        int // invocation whose value was returned (0 = error/panic)
	err        bool
}

type runner struct {
	c      *Case
	s      *verifsim.Sim
	res    *Result
	caches []*cache.Cache[*val]
	relsd  []bool // harness view: Release() requested for cache i
	useMu  []*sync.RWMutex // the owner's use-lock: seq-db releases a cache only under the fraction's write lock, lookups run under its read lock
	cl     *cache.Cleaner
	invSeq int
	seq    int64
	hist   []histEv
	log    []string
	okInv  map[int]bool
}

func (r *runner) violate(clause, format string, a ...any) {
	for _, v := range r.res.Violations {
		if v.Clause == clause {
			return
		}
	}
	r.res.Violations = append(r.res.Violations, Violation{clause, fmt.Sprintf(format, a...)})
	r.log = append(r.log, "VIOLATION "+clause+": "+fmt.Sprintf(format, a...))
}

func (r *runner) tick() int64 { r.seq++; return r.seq }

// Run executes one case in its own bubble.
func Run(t *testing.T, c *Case) *Result {
	res := &Result{Seed: c.Seed, Probes: map[string]int{}}
	r := &runner{c: c, res: res, okInv: map[int]bool{}}
	s := verifsim.RunBubble(t, verifsim.Config{Seed: c.Seed, PSync: c.PSync, PStmt: c.PStmt, Schedule: c.Schedule, MaxSteps: 200000}, func(s *verifsim.Sim) {
		r.s = s
		r.script()
	})
	res.Steps, res.Switches = s.Steps(), s.Switches()
	res.Hash = fmt.Sprintf("%016x", s.InterleavingHash())
	res.Schedule = s.RecordedSchedule()
	for k, v := range s.Probes {
		res.Probes[k] += v
	}
	res.Trace = r.log
	if len(res.Trace) > 80 {
		res.Trace = res.Trace[len(res.Trace)-80:]
	}
	switch {
	case len(s.Failures) > 0:
		res.Outcome, res.Infra = "infra", fmt.Sprint(s.Failures)
	case len(res.Violations) > 0:
		res.Outcome = "violation"
	case s.Outcome != "":
		res.Outcome, res.Infra = "violation", ""
		res.Violations = append(res.Violations, Violation{"hang", "run ended by " + s.Outcome + ": callers never finished\n" + s.DumpTasks()})
	default:
		res.Outcome = "ok"
	}
	return res
}

func (r *runner) newCache() {
	c := cache.NewCache[*val](r.cl, nil)
	r.caches = append(r.caches, c)
	r.relsd = append(r.relsd, false)
	r.useMu = append(r.useMu, &sync.RWMutex{})
}

func (r *runner) script() {
	r.cl = cache.NewCleaner(r.c.SizeLimit, nil)
	if r.c.Total > 0 {
		cfg := fracmanager.FillConfigWithDefault(&fracmanager.Config{CacheSize: r.c.Total, SortCacheSize: r.c.Sort, FracSize: r.c.FracSize, TotalSize: 1 << 40})
		cm := fracmanager.NewCacheMaintainer(cfg.CacheSize, cfg.SortCacheSize, nil)
		cleaners, labels := cm.VerifCleaners()
		var sum uint64
		for i, cl := range cleaners {
			if sum+cl.SizeLimit() < sum || cl.SizeLimit() > r.c.Total {
				r.violate("limit_config", "cache size %d, fraction size %d, sort cache %d (0 = derived: %d) are configured, the cleaner of %q gets the limit %d", r.c.Total, r.c.FracSize, r.c.Sort, cfg.SortCacheSize, labels[i], cl.SizeLimit())
				return
			}
			sum += cl.SizeLimit()
			if cl.SizeLimit() == 0 {
				r.violate("limit_config", "cache size %d, fraction size %d, sort cache %d (0 = derived: %d) are configured, the cleaner of %q gets no limit at all", r.c.Total, r.c.FracSize, r.c.Sort, cfg.SortCacheSize, labels[i])
				return
			}
		}
		if sum > r.c.Total {
			r.violate("limit_config", "cache size %d, fraction size %d, sort cache %d (0 = derived: %d) are configured, the limits of the cleaners sum to %d", r.c.Total, r.c.FracSize, r.c.Sort, cfg.SortCacheSize, sum)
			return
		}
		r.cl = cleaners[r.c.Pick%len(cleaners)]
		r.c.SizeLimit = r.cl.SizeLimit()
		r.s.Probe("cleaner_from_maintainer")
	}
	for i := 0; i < r.c.NCaches; i++ {
		r.newCache()
	}
	var tasks []*verifsim.Task
	for ci, ops := range r.c.Callers {
		ci, ops := ci, ops
		tasks = append(tasks, r.s.GoOn(nil, func() {
			for i := range ops {
				r.callerOp(ci, &ops[i])
			}
		}))
	}
	tasks = append(tasks, r.s.GoOn(nil, func() {
		for i := range r.c.Cleaner {
			r.cleanerOp(&r.c.Cleaner[i])
		}
	}))
	for _, t := range tasks {
		if res := r.s.WaitTask(t, nil, time.Hour); res != "done" {
			r.violate("hang", "task did not finish (%s): a caller is parked forever\n%s", res, r.s.DumpTasks())
			return
		}
	}
	r.quiescent()
	r.porcupine()
}

func (r *runner) cleanerOp(op *Op) {
	r.res.Ops++
	switch op.K {
	case "rotate":
		r.cl.Rotate()
	case "cleanup":
		r.cl.Cleanup(&cache.CleanStat{})
	case "gc":
		r.cl.CleanEmptyGenerations()
		r.cl.ReleaseBuckets()
	case "sleep":
		verifsim.Yield(3)
	}
	r.log = append(r.log, "cleaner "+op.K)
}

func (r *runner) callerOp(ci int, op *Op) {
	r.res.Ops++
	switch op.K {
	case "newcache":
		r.newCache()
		r.log = append(r.log, fmt.Sprintf("c%d newcache -> #%d", ci, len(r.caches)-1))
	case "release":
		i := op.Cache % len(r.caches)
		if r.relsd[i] {
			return
		}
		r.relsd[i] = true // no lookups are issued on a cache once its release has been requested
		verifsim.Lock(4, r.useMu[i].TryLock)
		r.caches[i].Release()
		verifsim.Unlock(r.useMu[i].Unlock)
		r.log = append(r.log, fmt.Sprintf("c%d release #%d", ci, i))
	case "sleep":
		verifsim.Yield(3)
	case "get", "geterr":
		i := op.Cache % len(r.caches)
		verifsim.Lock(4, r.useMu[i].TryRLock)
		if !r.relsd[i] {
			r.get(ci, i, op)
		}
		verifsim.Unlock(r.useMu[i].RUnlock)
	}
}

func (r *runner) get(ci, i int, op *Op) {
	c := r.caches[i]
	ev := histEv{client: ci, cache: i, key: op.Key, call: r.tick()}
	var myInv int
	loader := func() (*val, int, error) {
		r.invSeq++
		myInv = r.invSeq
		ev.ranLoader = true
		v := &val{cache: i, key: op.Key, inv: myInv}
		for y := 0; y < op.Yield; y++ {
			verifsim.Yield(2)
		}
		switch op.Mode {
		case "panic":
			panic(fmt.Sprintf("loader panic inv=%d", myInv))
		case "err":
			return nil, 0, fmt.Errorf("loader error inv=%d", myInv)
		}
		v.finished = true
		r.okInv[myInv] = true
		ev.loaderOK = true
		return v, op.Size, nil
	}
	var got *val
	var err error
	panicked := func() (p any) {
		defer func() { p = recover() }()
		if op.K == "geterr" {
			got, err = c.GetWithError(op.Key, loader)
		} else {
			got = c.Get(op.Key, func() (*val, int) {
				v, sz, e := loader()
				if e != nil {
					// Get has no error path: model an error as a panic of the loader
					panic(e.Error())
				}
				return v, sz
			})
		}
		return nil
	}()
	ev.ret = r.tick()
	switch {
	case panicked != nil:
		ev.err = true
		if !ev.ranLoader || ev.loaderOK {
			r.violate("foreign_panic", "caller c%d of cache #%d key %d got panic %v although its own loader did not fail", ci, i, op.Key, panicked)
		}
	case err != nil:
		ev.err = true
		if !ev.ranLoader || ev.loaderOK {
			r.violate("foreign_error", "caller c%d of cache #%d key %d got error %v although its own loader did not fail", ci, i, op.Key, err)
		}
	default:
		if ev.ranLoader && !ev.loaderOK {
			r.violate("swallowed_failure", "loader of c%d (cache #%d key %d) failed but the call returned a value", ci, i, op.Key)
		}
		switch {
		case got == nil:
			r.violate("nil_value", "Get(cache #%d, key %d) returned nil without error", i, op.Key)
		case got.cache != i || got.key != op.Key:
			r.violate("wrong_value", "Get(cache #%d, key %d) returned the value of cache #%d key %d", i, op.Key, got.cache, got.key)
		case !got.finished || !r.okInv[got.inv]:
			r.violate("half_built", "Get(cache #%d, key %d) returned a value whose loader (inv %d) has not finished successfully", i, op.Key, got.inv)
		default:
			ev.inv = got.inv
			if ev.ranLoader && got.inv != myInv {
				r.violate("wrong_value", "caller ran loader inv %d but got value of inv %d", myInv, got.inv)
			}
		}
	}
	r.hist = append(r.hist, ev)
	r.log = append(r.log, fmt.Sprintf("c%d %s #%d key=%d -> inv=%d ran=%v err=%v", ci, op.K, i, op.Key, ev.inv, ev.ranLoader, ev.err))
}

// quiescent: no caller is running. Accounting, bucket management and boundedness.
func (r *runner) quiescent() {
	if len(r.res.Violations) > 0 {
		return
	}
	// every cache not yet released is still managed
	for i, c := range r.caches {
		_, _, released := c.VerifLive()
		if !released && !r.cl.VerifManages(c) {
			r.violate("bucket_dropped", "live cache #%d is no longer under the cleaner's management (%d buckets managed, %d caches created)", i, r.cl.VerifBucketCount(), len(r.caches))
			return
		}
	}
	// one full maintenance pass without concurrent lookups
	r.cl.Rotate()
	r.cl.Cleanup(&cache.CleanStat{})
	r.cl.CleanEmptyGenerations()
	r.cl.ReleaseBuckets()
	live := uint64(0)
	nlive := 0
	for i, c := range r.caches {
		sz, _, released := c.VerifLive()
		if released {
			if r.cl.VerifManages(c) {
				r.violate("released_kept", "released cache #%d is still in the cleaner's bucket list after a ReleaseBuckets pass", i)
				return
			}
			continue
		}
		nlive++
		live += sz
		if !r.cl.VerifManages(c) {
			r.violate("bucket_dropped", "live cache #%d is no longer under the cleaner's management after ReleaseBuckets", i)
			return
		}
	}
	if got := r.cl.VerifSize(); got != live {
		// explain: per listed generation accounted vs. sum of entries, entries in unlisted generations
		gens := r.cl.VerifGens()
		sum := map[*cache.Generation]uint64{}
		detail := ""
		for i, c := range r.caches {
			if _, _, released := c.VerifLive(); released {
				continue
			}
			keys, sizes, eg, stale := c.VerifEntries()
			for j := range keys {
				sum[eg[j]] += sizes[j]
				if _, listed := gens[eg[j]]; !listed {
					detail += fmt.Sprintf(" [cache #%d key %d size %d sits in a generation the cleaner does not list (stale=%v)]", i, keys[j], sizes[j], stale[j])
				}
			}
		}
		n := 0
		for g, acc := range gens {
			n++
			if acc != sum[g] {
				detail += fmt.Sprintf(" [a listed generation accounts %d, its entries sum to %d]", acc, sum[g])
			}
		}
		r.violate("accounting", "cleaner accounts %d bytes, live entries of %d live caches sum to %d;%s", got, nlive, live, detail)
		return
	}
	if r.c.SizeLimit > 0 && r.cl.VerifSize() > r.c.SizeLimit {
		// a second pass must not be needed: the pass ran without concurrent lookups
		r.violate("unbounded", "after a cleaning pass without concurrent lookups the accounted size %d exceeds the limit %d", r.cl.VerifSize(), r.c.SizeLimit)
	}
}

// ---- porcupine: per (cache,key) register with nondeterministic eviction -------------------------

type pIn struct {
	cache int
	key   uint32
}
type pOut struct {
	ran, ok bool
	inv     int
	err     bool
}

func (r *runner) porcupine() {
	if len(r.res.Violations) > 0 || len(r.hist) == 0 {
		return
	}
	model := porcupine.NondeterministicModel{
		Partition: func(history []porcupine.Operation) [][]porcupine.Operation {
			m := map[pIn][]porcupine.Operation{}
			var keys []pIn
			for _, op := range history {
				k := op.Input.(pIn)
				if _, ok := m[k]; !ok {
					keys = append(keys, k)
				}
				m[k] = append(m[k], op)
			}
			sort.Slice(keys, func(i, j int) bool {
				if keys[i].cache != keys[j].cache {
					return keys[i].cache < keys[j].cache
				}
				return keys[i].key < keys[j].key
			})
			var out [][]porcupine.Operation
			for _, k := range keys {
				out = append(out, m[k])
			}
			return out
		},
		Init: func() []interface{} { return []interface{}{0} },
		Step: func(state, input, output interface{}) []interface{} {
			st := state.(int)
			o := output.(pOut)
			switch {
			case o.err:
				// failed load: nothing is cached afterwards (or whatever was evicted/kept before: the
				// failing caller only runs when it found nothing)
				return []interface{}{0}
			case o.ran:
				// miss: legal from any state (eviction may precede), value becomes cached, may be evicted at once
				return []interface{}{o.inv, 0}
			default:
				// hit (incl. waiting for an in-flight load): must be the cached invocation
				if st == o.inv {
					return []interface{}{st, 0}
				}
				return nil
			}
		},
		Equal: func(a, b interface{}) bool { return a.(int) == b.(int) },
		DescribeOperation: func(in, out interface{}) string {
			return fmt.Sprintf("get(%v) -> %+v", in, out)
		},
	}
	var ops []porcupine.Operation
	for _, e := range r.hist {
		ops = append(ops, porcupine.Operation{ClientId: e.client, Input: pIn{e.cache, e.key}, Call: e.call, Output: pOut{ran: e.ranLoader, ok: e.loaderOK, inv: e.inv, err: e.err}, Return: e.ret})
	}
	res := porcupine.CheckOperationsTimeout(model.ToModel(), ops, 20*time.Second)
	switch res {
	case porcupine.Illegal:
		r.violate("not_linearizable", "history of %d lookups is not linearizable w.r.t. the register-with-eviction model (a lookup returned a value that was not the cached one)", len(ops))
	case porcupine.Unknown:
		r.res.Inconclusive = true
	}
}

package cachesim

import (
	"encoding/json"
	"fmt"
	"os"
	"runtime"
	"strings"
	"testing"
)

type Job struct {
	Mode     string `json:"mode"`
	Seed     uint64 `json:"seed"`
	Count    int    `json:"count"`
	Thorough bool   `json:"thorough"`
	Case     *Case  `json:"case"`
}

type batch struct {
	Property string         `json:"property"`
	Seed     uint64         `json:"seed"`
	Outcome  string         `json:"outcome"`
	Runs     int            `json:"runs"`
	NonTriv  int            `json:"nontriv_runs"`
	Hashes   []string       `json:"hashes"`
	Steps    int            `json:"steps"`
	Ops      int            `json:"ops"`
	Probes   map[string]int `json:"probes"`
	Sample   any            `json:"sample,omitempty"`
	Infra    string         `json:"infra,omitempty"`
}

func TestWorker(t *testing.T) {
	v := os.Getenv("VERIF_JOB")
	if v == "" {
		t.Skip("VERIF_JOB not set")
	}
	data := []byte(v)
	if !strings.HasPrefix(strings.TrimSpace(v), "{") {
		data, _ = os.ReadFile(v)
	}
	var job Job
	if err := json.Unmarshal(data, &job); err != nil {
		t.Fatal(err)
	}
	emit := func(prefix string, x any) {
		out, _ := json.Marshal(x)
		fmt.Printf("%s %s\n", prefix, out)
	}
	if job.Mode == "replay" {
		res := Run(t, job.Case)
		emit("RESULT", map[string]any{"property": "C18", "seed": res.Seed, "outcome": res.Outcome, "violations": res.Violations, "steps": res.Steps,
			"switches": res.Switches, "hash": res.Hash, "trace": res.Trace, "infra": res.Infra, "digest": res.Hash, "nontrivial": true})
		return
	}
	if job.Count <= 0 {
		job.Count = 1
	}
	b := batch{Property: "C18", Seed: job.Seed, Outcome: "ok", Probes: map[string]int{}}
	seen := map[string]bool{}
	for i := 0; i < job.Count; i++ {
		c := Gen(job.Seed+uint64(i), job.Thorough)
		res := Run(t, c)
		b.Runs++
		b.Steps += res.Steps
		b.Ops += res.Ops
		for k, v := range res.Probes {
			b.Probes[k] += v
		}
		if res.Inconclusive {
			b.Probes["porcupine_unknown"]++
		}
		if res.Switches > 0 {
			b.NonTriv++
			if !seen[res.Hash] {
				seen[res.Hash] = true
				b.Hashes = append(b.Hashes, res.Hash)
			}
		}
		if b.Sample == nil && res.Switches > 0 && i > 2 {
			b.Sample = map[string]any{"seed": c.Seed, "callers": c.Callers, "cleaner": c.Cleaner, "size_limit": c.SizeLimit, "pre_emptions": res.Switches, "trace": res.Trace}
		}
		if res.Outcome == "violation" || res.Outcome == "infra" || (job.Count == 1 && os.Getenv("VERIF_SELFTEST") != "") {
			cc := *c
			cc.Schedule = res.Schedule
			emit("RESULT", map[string]any{"property": "C18", "seed": c.Seed, "outcome": res.Outcome, "violations": res.Violations, "steps": res.Steps,
				"switches": res.Switches, "hash": res.Hash, "trace": res.Trace, "infra": res.Infra, "nontrivial": true})
			emit("CASE", &cc)
		}
		if i%64 == 63 {
			runtime.GC()
		}
	}
	emit("RESULT", &b)
}

package cachesim

import "github.com/ozontech/seq-db/verifsim"

// Gen builds the case of a seed.
func Gen(seed uint64, thorough bool) *Case {
	r := verifsim.NewSplitMix(seed).Split("c18")
	c := &Case{Property: "C18", Seed: seed}
	c.NCaches = r.Range(1, 4)
	c.SizeLimit = []uint64{0, 200, 600, 2000, 100000}[r.Intn(5)]
	if r.Bool(0.2) {
		// the store's wiring: a configured total and a sort cache of any size up to it
		c.Total = []uint64{4 << 10, 16 << 10, 64 << 10, 1 << 20}[r.Intn(4)]
		if r.Bool(0.7) {
			// derived: eight fraction sizes, capped; the interesting region is around the cache size itself
			c.FracSize = c.Total * uint64([]int{5, 9, 10, 11, 12, 13, 14, 20}[r.Intn(8)]) / 100
		} else {
			c.FracSize = c.Total / 100
			c.Sort = c.Total * uint64([]int{50, 80, 85, 89}[r.Intn(4)]) / 100
		}
		c.Pick = r.Intn(7)
	}
	c.PSync = []float64{0.1, 0.3, 0.6}[r.Intn(3)]
	c.PStmt = []float64{0, 0.02, 0.1, 0.25}[r.Intn(4)]
	ncallers := r.Range(2, 6)
	nkeys := r.Range(1, 6)
	maxOps := 8
	if thorough {
		maxOps = 14
	}
	for i := 0; i < ncallers; i++ {
		var ops []Op
		n := r.Range(2, maxOps)
		for j := 0; j < n; j++ {
			switch x := r.Intn(100); {
			case x < 6:
				ops = append(ops, Op{K: "release", Cache: r.Intn(8)})
			case x < 10:
				ops = append(ops, Op{K: "newcache"})
			case x < 14:
				ops = append(ops, Op{K: "sleep"})
			default:
				op := Op{K: "get", Cache: r.Intn(8), Key: uint32(r.Intn(nkeys) + 1), Size: r.Range(0, 120), Yield: r.Intn(3), Mode: "ok"}
				if r.Bool(0.4) {
					op.K = "geterr"
				}
				switch y := r.Intn(100); {
				case y < 8:
					op.Mode = "panic"
				case y < 18:
					op.Mode = "err"
				}
				ops = append(ops, op)
			}
		}
		c.Callers = append(c.Callers, ops)
	}
	n := r.Range(2, 12)
	for i := 0; i < n; i++ {
		c.Cleaner = append(c.Cleaner, Op{K: []string{"rotate", "cleanup", "gc", "sleep", "rotate", "cleanup", "gc"}[r.Intn(7)]})
	}
	return c
}

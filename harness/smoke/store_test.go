package smoke

import (
	"fmt"
	"os"
	"strconv"
	"strings"
	"testing"
	"time"

	"verif/harness/simenv"

	"github.com/ozontech/seq-db/verifsim"
	"github.com/ozontech/seq-db/verifsim/simos"
)

func TestStoreSmoke(t *testing.T) {
	seed, _ := strconv.ParseUint(os.Getenv("VERIF_SEED"), 10, 64)
	k := simenv.DefaultKnobs()
	k.FracSize = 2000
	k.PStmt = 0.01
	simenv.ApplyGlobals(k, seed)
	w := simos.NewWorld()
	simos.Install(w)
	start := time.Now()
	s := verifsim.RunBubble(t, verifsim.Config{Seed: seed, PSync: k.PSync, PStmt: k.PStmt, TraceSched: os.Getenv("VERIF_TRACE") != ""}, func(s *verifsim.Sim) {
		st := simenv.NewStore(s, w, "s0", k, "")
		fmt.Println("start:", st.Start(time.Hour), st.Node.Note())
		n := 0
		for b := 0; b < 10; b++ {
			var docs []simenv.Doc
			for i := 0; i < 5; i++ {
				n++
				docs = append(docs, simenv.Doc{MID: uint64(946684800000 + n*10), RID: uint64(n), Body: fmt.Sprintf(`{"n":%d,"pad":"xxxxxxxxxxxxxxxxxxxxxxxxxxxxxxxxxxxxxxxxxxxxxxxxxxxxx"}`, n), Toks: []simenv.Tok{{"k0", fmt.Sprint("v", n%3)}, {"svc", "a"}}})
			}
			ack, status, err := st.Bulk(time.Minute, docs)
			if !ack {
				fmt.Println("bulk", b, ack, status, err)
			}
			s.SleepSim(300 * time.Millisecond)
		}
		fmt.Println("idle:", st.WaitIdle(time.Minute))
		res, status, err := st.Search(time.Minute, simenv.SearchReq{Query: "k0:v1", From: 0, To: 1 << 62, Size: 100, Desc: true, WithTotal: true})
		fmt.Println("search:", status, err, len(res.Hits), res.Total)
		f, status, err := st.Fetch(time.Minute, res.Hits[:3], true)
		fmt.Println("fetch:", status, err, len(f), string(f[0].Body))
		fmt.Println("fracs:", st.Fracs())
		fmt.Println("files:", st.SortedFileList())
		fmt.Println("stop:", st.StopGraceful(time.Hour))
		fmt.Println("files:", st.SortedFileList())
		fmt.Println("start2:", st.Start(time.Hour), st.Node.Note())
		res, status, err = st.Search(time.Minute, simenv.SearchReq{Query: "k0:v1", From: 0, To: 1 << 62, Size: 100, Desc: true, WithTotal: true})
		fmt.Println("search2:", status, err, len(res.Hits), res.Total)
		st.PowerLoss(seed, "")
		fmt.Println("files after power loss:", st.SortedFileList())
		fmt.Println("start3:", st.Start(time.Hour), st.Node.Note())
		res, status, err = st.Search(time.Minute, simenv.SearchReq{Query: "k0:v1", From: 0, To: 1 << 62, Size: 100, Desc: true, WithTotal: true})
		fmt.Println("search3:", status, err, len(res.Hits), res.Total)
	})
	fmt.Println("steps", s.Steps(), "switches", s.Switches(), "hash", s.InterleavingHash(), "fail", s.Failures, s.Outcome, "sim", s.SimElapsed(), "wall", time.Since(start))
	fmt.Println(w.Stats)
	if f := os.Getenv("VERIF_TRACE"); f != "" {
		os.WriteFile(f, []byte(strings.Join(s.Trace(), "\n")+"\n"+strings.Join(w.Log, "\n")), 0o644)
	}
}

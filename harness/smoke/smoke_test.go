package smoke

import (
	"fmt"
	"os"
	"strconv"
	"testing"

	"github.com/ozontech/seq-db/cache"
	"github.com/ozontech/seq-db/verifsim"
)

func TestSmoke(t *testing.T) {
	seed, _ := strconv.ParseUint(os.Getenv("VERIF_SEED"), 10, 64)
	var results []string
	s := verifsim.RunBubble(t, verifsim.Config{Seed: seed, PSync: 0.3, PStmt: 0.05}, func(s *verifsim.Sim) {
		c := cache.NewCache[int](nil, nil)
		var tasks []*verifsim.Task
		for i := 0; i < 4; i++ {
			i := i
			tasks = append(tasks, s.GoOn(nil, func() {
				for k := 0; k < 5; k++ {
					v := c.Get(uint32(k%3), func() (int, int) {
						verifsim.Yield(2)
						return i*100 + k, 8
					})
					results = append(results, fmt.Sprintf("t%d k%d v%d", i, k%3, v))
				}
			}))
		}
		for _, tk := range tasks {
			if r := s.WaitTask(tk, nil, 1e12); r != "done" {
				t.Errorf("task: %s", r)
			}
		}
	})
	fmt.Println("steps", s.Steps(), "switches", s.Switches(), "hash", s.InterleavingHash(), "fail", s.Failures, s.Outcome)
	fmt.Println(results)
}

// Package model is the executable reference model: a set of documents with tokens, an
// independent query evaluator written against the documented semantics, and direct computation
// of search results, histograms and aggregations.
package model

import (
	"fmt"
	"math"
	"sort"
	"strconv"
	"strings"
)

type Tok struct {
	F string `json:"f"`
	V string `json:"v"`
}

// Doc is a document: identity, size of its (derived) body, tokens.
type Doc struct {
	MID  uint64 `json:"mid"`
	RID  uint64 `json:"rid"`
	Size int    `json:"size"`
	Toks []Tok  `json:"toks"`
	// Nested elements (fields of type "nested"): the proxy emits one extra zero-sized meta per
	// element under the parent's ID, carrying the element's tokens plus all tokens of the parent.
	// The store evaluates queries per meta ("row"); a document is found if any row matches.
	Nested [][]Tok `json:"nested,omitempty"`
}

// Rows returns the rows (metas) of the document as token-only documents: the parent first.
func (d *Doc) Rows() []*Doc {
	if len(d.Nested) == 0 {
		return []*Doc{d}
	}
	rows := []*Doc{{MID: d.MID, RID: d.RID, Size: d.Size, Toks: d.Toks}}
	for _, n := range d.Nested {
		toks := append(append([]Tok{}, n...), d.Toks...)
		rows = append(rows, &Doc{MID: d.MID, RID: d.RID, Toks: toks})
	}
	return rows
}

type ID struct{ MID, RID uint64 }

func (d *Doc) ID() ID { return ID{d.MID, d.RID} }

func (i ID) String() string { return fmt.Sprintf("%d-%d", i.MID, i.RID) }

func Less(a, b ID) bool {
	if a.MID != b.MID {
		return a.MID < b.MID
	}
	return a.RID < b.RID
}

// Body derives the document bytes from its identity and size: valid JSON, unique per ID, so that
// "another document's bytes" is always detectable.
func (d *Doc) Body() []byte {
	head := fmt.Sprintf(`{"id":"%d-%d","p":"`, d.MID, d.RID)
	n := d.Size - len(head) - 2
	if n < 0 {
		n = 0
	}
	var sb strings.Builder
	sb.Grow(len(head) + n + 2)
	sb.WriteString(head)
	x := d.MID*31 + d.RID
	for i := 0; i < n; i++ {
		x = x*6364136223846793005 + 1442695040888963407
		sb.WriteByte("abcdefghijklmnopqrstuvwxyz012345"[(x>>59)&31])
	}
	sb.WriteString(`"}`)
	return []byte(sb.String())
}

func (d *Doc) Has(f string) bool {
	for _, t := range d.Toks {
		if t.F == f {
			return true
		}
	}
	return false
}

func (d *Doc) Vals(f string) []string {
	var out []string
	for _, t := range d.Toks {
		if t.F == f {
			out = append(out, t.V)
		}
	}
	return out
}

// Q is a query tree.
type Q struct {
	Op    string   `json:"op"` // all term glob range exists in and or not
	F     string   `json:"f,omitempty"`
	V     string   `json:"v,omitempty"`
	Vs    []string `json:"vs,omitempty"`
	Lo    int      `json:"lo,omitempty"`
	Hi    int      `json:"hi,omitempty"`
	LoInc bool     `json:"lo_inc,omitempty"`
	HiInc bool     `json:"hi_inc,omitempty"`
	Kids  []*Q     `json:"kids,omitempty"`
}

// SeqQL renders the query in seq-ql.
func (q *Q) SeqQL() string {
	switch q.Op {
	case "all":
		return ""
	case "term", "glob":
		return q.F + ":" + quoteIfNeeded(q.V, q.Op == "glob")
	case "exists":
		return "_exists_:" + q.F
	case "in":
		return q.F + ":in(" + strings.Join(q.Vs, ", ") + ")"
	case "range":
		l, r := "(", ")"
		if q.LoInc {
			l = "["
		}
		if q.HiInc {
			r = "]"
		}
		return fmt.Sprintf("%s:%s%d, %d%s", q.F, l, q.Lo, q.Hi, r)
	case "not":
		return "not (" + q.Kids[0].SeqQL() + ")"
	case "and", "or":
		parts := make([]string, len(q.Kids))
		for i, k := range q.Kids {
			parts[i] = "(" + k.SeqQL() + ")"
		}
		return strings.Join(parts, " "+q.Op+" ")
	}
	panic("bad op " + q.Op)
}

// globMatch implements '*' wildcards (any number of characters), nothing else is special.
// quoteIfNeeded renders a value as a quoted seq-ql string when it contains characters that are
// syntax outside quotes (pipe, slash, spaces, ...); plain words stay as they were.
func quoteIfNeeded(v string, glob bool) string {
	plain := v != ""
	for _, c := range v {
		switch {
		case c >= 'a' && c <= 'z', c >= 'A' && c <= 'Z', c >= '0' && c <= '9', c == '_', c == '-', c == '.':
		case c == '*' && glob:
		default:
			plain = false
		}
	}
	if plain {
		return v
	}
	var sb strings.Builder
	sb.WriteByte('"')
	for _, c := range v {
		if c == '"' || c == '\\' {
			sb.WriteByte('\\')
		}
		sb.WriteRune(c)
	}
	sb.WriteByte('"')
	return sb.String()
}

func globMatch(pat, s string) bool {
	parts := strings.Split(pat, "*")
	if len(parts) == 1 {
		return pat == s
	}
	if !strings.HasPrefix(s, parts[0]) {
		return false
	}
	s = s[len(parts[0]):]
	last := parts[len(parts)-1]
	mid := parts[1 : len(parts)-1]
	for _, m := range mid {
		i := strings.Index(s, m)
		if i < 0 {
			return false
		}
		s = s[i+len(m):]
	}
	return len(s) >= len(last) && strings.HasSuffix(s, last)
}

// Match evaluates the query on one document: true if any of its rows matches.
func (q *Q) Match(d *Doc) bool {
	if len(d.Nested) == 0 {
		return q.matchRow(d)
	}
	for _, r := range d.Rows() {
		if q.matchRow(r) {
			return true
		}
	}
	return false
}

// MatchingRows counts the rows of d that match.
func (q *Q) MatchingRows(d *Doc) []*Doc {
	var out []*Doc
	for _, r := range d.Rows() {
		if q.matchRow(r) {
			out = append(out, r)
		}
	}
	return out
}

func (q *Q) matchRow(d *Doc) bool {
	switch q.Op {
	case "all":
		return true
	case "term":
		for _, t := range d.Toks {
			if t.F == q.F && t.V == q.V {
				return true
			}
		}
		return false
	case "glob":
		for _, t := range d.Toks {
			if t.F == q.F && globMatch(q.V, t.V) {
				return true
			}
		}
		return false
	case "exists":
		return d.Has(q.F)
	case "in":
		for _, t := range d.Toks {
			if t.F != q.F {
				continue
			}
			for _, v := range q.Vs {
				if t.V == v {
					return true
				}
			}
		}
		return false
	case "range":
		for _, t := range d.Toks {
			if t.F != q.F {
				continue
			}
			n, err := strconv.ParseFloat(t.V, 64)
			if err != nil || math.IsNaN(n) || math.IsInf(n, 0) {
				continue
			}
			lo, hi := float64(q.Lo), float64(q.Hi)
			okLo := n > lo || (q.LoInc && n == lo)
			okHi := n < hi || (q.HiInc && n == hi)
			if okLo && okHi {
				return true
			}
		}
		return false
	case "not":
		return !q.Kids[0].matchRow(d)
	case "and":
		for _, k := range q.Kids {
			if !k.matchRow(d) {
				return false
			}
		}
		return true
	case "or":
		for _, k := range q.Kids {
			if k.matchRow(d) {
				return true
			}
		}
		return false
	}
	panic("bad op " + q.Op)
}

// Corpus is a set of documents with set semantics on IDs.
type Corpus struct {
	Docs map[ID]*Doc
}

func NewCorpus() *Corpus { return &Corpus{Docs: map[ID]*Doc{}} }

func (c *Corpus) Add(d *Doc) {
	if _, ok := c.Docs[d.ID()]; !ok {
		c.Docs[d.ID()] = d
	}
}

// Matching returns matching documents within [from,to], ordered.
func (c *Corpus) Matching(q *Q, from, to uint64, desc bool) []*Doc {
	var out []*Doc
	for _, d := range c.Docs {
		if d.MID < from || d.MID > to {
			continue
		}
		if q.Match(d) {
			out = append(out, d)
		}
	}
	sort.Slice(out, func(i, j int) bool {
		if desc {
			return Less(out[j].ID(), out[i].ID())
		}
		return Less(out[i].ID(), out[j].ID())
	})
	return out
}

// Rows expands matching documents into their matching rows (what the store counts); rowsAreDocs
// tells whether every document matched through exactly one row, i.e. counts over rows equal
// counts over documents and do not depend on where duplicate listing entries are removed.
func Rows(q *Q, docs []*Doc) (rows []*Doc, rowsAreDocs bool) {
	rowsAreDocs = true
	for _, d := range docs {
		if len(d.Nested) == 0 {
			rows = append(rows, d)
			continue
		}
		m := q.MatchingRows(d)
		if len(m) != 1 {
			rowsAreDocs = false
		}
		rows = append(rows, m...)
	}
	return rows, rowsAreDocs
}

// Hist computes histogram buckets.
func Hist(docs []*Doc, interval uint64) map[uint64]uint64 {
	h := map[uint64]uint64{}
	if interval == 0 {
		return h
	}
	for _, d := range docs {
		h[d.MID-d.MID%interval]++
	}
	return h
}

// Bin is the expected content of one aggregation bin.
type Bin struct {
	Total     int64
	Sum       float64
	Min, Max  float64
	NotExists int64
	Samples   []float64 // sorted
}

// AggExpect is the expected aggregation result (no time interval).
type AggExpect struct {
	Bins      map[string]*Bin
	NotExists int64
}

// Agg computes an aggregation directly from documents. Fields must be single-valued in docs.
func Agg(docs []*Doc, fn, field, groupBy string) *AggExpect {
	res := &AggExpect{Bins: map[string]*Bin{}}
	bin := func(k string) *Bin {
		b := res.Bins[k]
		if b == nil {
			b = &Bin{}
			res.Bins[k] = b
		}
		return b
	}
	add := func(b *Bin, v float64) {
		if b.Total == 0 {
			b.Min, b.Max = v, v
		} else {
			b.Min, b.Max = math.Min(b.Min, v), math.Max(b.Max, v)
		}
		b.Total++
		b.Sum += v
		b.Samples = append(b.Samples, v)
	}
	switch {
	case fn == "count" && field == "":
		for _, d := range docs {
			vs := d.Vals(groupBy)
			if len(vs) == 0 {
				res.NotExists++
				continue
			}
			bin(vs[0]).Total++
		}
		if res.NotExists > 0 {
			bin("_not_exists").Total = res.NotExists
		}
	case fn == "unique":
		for _, d := range docs {
			vs := d.Vals(groupBy)
			if len(vs) == 0 {
				res.NotExists++
				continue
			}
			bin(vs[0])
		}
	case groupBy == "":
		for _, d := range docs {
			b := bin("")
			vs := d.Vals(field)
			if len(vs) == 0 {
				b.NotExists++
				continue
			}
			v, _ := strconv.ParseFloat(vs[0], 64)
			add(b, v)
		}
	default:
		for _, d := range docs {
			gs, fs := d.Vals(groupBy), d.Vals(field)
			switch {
			case len(gs) == 0 && len(fs) == 0:
			case len(fs) == 0:
				bin(gs[0]).NotExists++
			case len(gs) == 0:
				res.NotExists++
			default:
				v, _ := strconv.ParseFloat(fs[0], 64)
				add(bin(gs[0]), v)
			}
		}
	}
	for _, b := range res.Bins {
		sort.Float64s(b.Samples)
	}
	return res
}

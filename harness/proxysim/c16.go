package proxysim

import (
	"context"
	"errors"
	"fmt"
	"io"
	"sort"
	"testing"
	"time"

	"google.golang.org/grpc"
	"google.golang.org/grpc/metadata"
	"google.golang.org/protobuf/types/known/emptypb"
	"google.golang.org/protobuf/types/known/timestamppb"

	"github.com/ozontech/seq-db/consts"
	"github.com/ozontech/seq-db/disk"
	"github.com/ozontech/seq-db/logger"
	"github.com/ozontech/seq-db/pkg/seqproxyapi/v1"
	pb "github.com/ozontech/seq-db/pkg/storeapi"
	"github.com/ozontech/seq-db/proxy/search"
	"github.com/ozontech/seq-db/proxy/stores"
	"github.com/ozontech/seq-db/proxyapi"
	"github.com/ozontech/seq-db/querytracer"
	"github.com/ozontech/seq-db/seq"
	"github.com/ozontech/seq-db/verifsim"
	"github.com/ozontech/seq-db/verifsim/simrand"
)

// SOutcome is the scripted behaviour of one Search or Fetch call of a stub store.
type SOutcome struct {
	Kind    string `json:"k"`            // search: ok | err | wants_old | too_many ; fetch: ok | err | break | missing | extra | dup | swap
	DelayMs int    `json:"ms,omitempty"` // reply latency (decides the arrival order of shard replies)
	At      int    `json:"at,omitempty"` // position the stream fault applies to
	N       int    `json:"n,omitempty"`  // extra/dup: how many unrequested entries (default 1), at consecutive positions
}

// C16Doc is a document of the stub corpus.
type C16Doc struct {
	MID   uint64 `json:"mid"`
	RID   uint64 `json:"rid"`
	Shard int    `json:"shard"`
	Cold  bool   `json:"cold,omitempty"` // lives in the long-term tier only
}

// C16Case is one explicit run.
type C16Case struct {
	Property   string                `json:"property"`
	Seed       uint64                `json:"seed"`
	Shards     int                   `json:"shards"`
	Replicas   int                   `json:"replicas"`
	ColdShards int                   `json:"cold_shards"`
	ColdRepl   int                   `json:"cold_replicas"`
	Docs       []C16Doc              `json:"docs"`
	SearchScr  map[string][]SOutcome `json:"search_script"`
	FetchScr   map[string][]SOutcome `json:"fetch_script"`
	Requests   []C16Req              `json:"ops"`
	Shuffle    bool                  `json:"shuffle_replicas,omitempty"`
	// Par: the requests are in flight at once on the one ingestor (their search stages interleave under the
	// scheduler); each is judged afterwards against what the stores answered to it
	Par bool `json:"par,omitempty"`
	PSync      float64               `json:"p_sync"`
	Schedule   []int                 `json:"schedule,omitempty"`
}

type C16Req struct {
	Offset int  `json:"offset"`
	Size   int  `json:"size"`
	Desc   bool `json:"desc"`
	Fetch  bool `json:"fetch"`
	// "" = search.Ingestor.Search directly; "export" = through the gRPC layer of proxyapi (Export: a stream of
	// documents whose response type has no way to say "partial")
	// "grpc" = through the Search handler of proxyapi, whose own deadline (TimeoutMs of simulated time) may pass
	// while stores are still working on the request
	Via       string `json:"via,omitempty"`
	TimeoutMs int    `json:"timeout_ms,omitempty"`
}

// histResp lets a GetHistogram response be judged like the responses that carry documents.
type histResp struct {
	*seqproxyapi.GetHistogramResponse
}

func (histResp) GetDocs() []*seqproxyapi.Document { return nil }

// protoDocs iterates the documents of a Search response.
type protoDocs struct {
	docs []*seqproxyapi.Document
	i    int
}

func (s *protoDocs) Next() (search.StreamingDoc, error) {
	if s.i >= len(s.docs) {
		return search.StreamingDoc{}, io.EOF
	}
	d := s.docs[s.i]
	s.i++
	return search.StreamingDoc{Data: d.GetData()}, nil
}

// recIngestor hands the gRPC layer the real ingestor and keeps what it answered.
type recIngestor struct {
	*search.Ingestor
	qpr *seq.QPR
	err error
}

func (ri *recIngestor) Search(ctx context.Context, sr *search.SearchRequest, tr *querytracer.Tracer) (*seq.QPR, search.DocsIterator, time.Duration, error) {
	qpr, docs, d, err := ri.Ingestor.Search(ctx, sr, tr)
	ri.qpr, ri.err = qpr, err
	return qpr, docs, d, err
}

// exportStream is the server side of an Export call: it collects what is sent.
type exportStream struct {
	ctx  context.Context
	sent []*seqproxyapi.ExportResponse
}

func (e *exportStream) Send(r *seqproxyapi.ExportResponse) error { e.sent = append(e.sent, r); return nil }
func (e *exportStream) SetHeader(metadata.MD) error               { return nil }
func (e *exportStream) SendHeader(metadata.MD) error              { return nil }
func (e *exportStream) SetTrailer(metadata.MD)                    {}
func (e *exportStream) Context() context.Context                  { return e.ctx }
func (e *exportStream) SendMsg(any) error                         { return nil }
func (e *exportStream) RecvMsg(any) error                         { return nil }

type sentDocs struct {
	docs []*seqproxyapi.ExportResponse
	i    int
}

func (s *sentDocs) Next() (search.StreamingDoc, error) {
	if s.i >= len(s.docs) {
		return search.StreamingDoc{}, io.EOF
	}
	d := s.docs[s.i]
	s.i++
	return search.StreamingDoc{Data: d.GetDoc().GetData()}, nil
}

type c16Stub struct {
	r     *c16Runner
	host  string
	shard int
	cold  bool
	ns    int
	nf    int
}

type c16Runner struct {
	c     *C16Case
	s     *verifsim.Sim
	res   *RunResult
	log   []string
	start time.Time
	// per request bookkeeping; stubs capture the record of the request they were called for, so that a
	// straggler of an earlier (already answered, cancelled) request cannot write into the next one's
	*reqRecord
}

type recKey struct{}

type reqRecord struct {
	searchAns map[string]string // host -> outcome kind of its search call in this request
	fetchAns  map[string]SOutcome
	// ids some fetch call of this request was asked for but did not deliver (failed call, broken stream,
	// missing or reordered entry): only these may come back empty
	excused   map[seq.ID]string
	requested map[seq.ID]bool
	// startNs: search calls each host had served when the request began
	startNs map[string]int
}

func (r *c16Runner) newRec(stubs map[string]*c16Stub) *reqRecord {
	rec := &reqRecord{searchAns: map[string]string{}, fetchAns: map[string]SOutcome{}, excused: map[seq.ID]string{}, requested: map[seq.ID]bool{}, startNs: map[string]int{}}
	for h, st := range stubs {
		rec.startNs[h] = st.ns
	}
	return rec
}

// healthyFrom: every search call the host serves from call number n+1 on is scripted to answer
func (r *c16Runner) healthyFrom(h string, n int) bool {
	sc := r.c.SearchScr[h]
	for i := n; i < len(sc); i++ {
		if sc[i].Kind != "ok" {
			return false
		}
	}
	return true
}

func (r *c16Runner) logf(f string, a ...any) {
	r.log = append(r.log, fmt.Sprintf("t=%d ", time.Since(r.start).Milliseconds())+fmt.Sprintf(f, a...))
}

func (r *c16Runner) violate(clause, f string, a ...any) {
	for _, v := range r.res.Violations {
		if v.Clause == clause {
			return
		}
	}
	d := fmt.Sprintf(f, a...)
	r.res.Violations = append(r.res.Violations, Violation{clause, d})
	r.logf("VIOLATION %s: %s", clause, d)
}

func docBody(d C16Doc) []byte {
	return []byte(fmt.Sprintf(`{"doc":"%d-%d","shard":%d}`, d.MID, d.RID, d.Shard))
}

func (r *c16Runner) docsOf(shard int, cold bool) []C16Doc {
	var out []C16Doc
	for _, d := range r.c.Docs {
		if d.Shard == shard && (cold || !d.Cold) {
			out = append(out, d)
		}
	}
	return out
}

func sortDocs(ds []C16Doc, desc bool) {
	sort.Slice(ds, func(i, j int) bool {
		a, b := ds[i], ds[j]
		less := a.MID < b.MID || (a.MID == b.MID && a.RID < b.RID)
		if desc {
			return !less && !(a.MID == b.MID && a.RID == b.RID)
		}
		return less
	})
}

func (st *c16Stub) Search(ctx context.Context, in *pb.SearchRequest, _ ...grpc.CallOption) (*pb.SearchResponse, error) {
	r := st.r
	st.ns++
	o := SOutcome{Kind: "ok"}
	if sc := r.c.SearchScr[st.host]; st.ns <= len(sc) {
		o = sc[st.ns-1]
	}
	r.res.Fired["search_"+o.Kind]++
	rec, _ := ctx.Value(recKey{}).(*reqRecord) // the request this call belongs to (a straggler of an earlier request may run late)
	if rec == nil {
		rec = &reqRecord{searchAns: map[string]string{}, fetchAns: map[string]SOutcome{}, excused: map[seq.ID]string{}, requested: map[seq.ID]bool{}}
	}
	rec.searchAns[st.host] = o.Kind
	if err := simWait(ctx, time.Duration(o.DelayMs)*time.Millisecond); err != nil {
		rec.searchAns[st.host] = "cancelled"
		return nil, err
	}
	r.logf("%s search#%d -> %s", st.host, st.ns, o.Kind)
	switch o.Kind {
	case "err":
		return nil, errors.New("stub: store down")
	case "wants_old":
		return &pb.SearchResponse{Code: pb.SearchErrorCode_INGESTOR_QUERY_WANTS_OLD_DATA}, nil
	case "too_many":
		return &pb.SearchResponse{Code: pb.SearchErrorCode_TOO_MANY_FRACTIONS_HIT}, nil
	}
	docs := r.docsOf(st.shard, st.cold)
	sortDocs(docs, in.Order == pb.Order_ORDER_DESC)
	resp := &pb.SearchResponse{Total: uint64(len(docs))}
	limit := int(in.Size + in.Offset)
	for i, d := range docs {
		if i >= limit {
			break
		}
		resp.IdSources = append(resp.IdSources, &pb.SearchResponse_IdWithHint{Id: &pb.SearchResponse_Id{Mid: d.MID, Rid: d.RID}, Hint: fmt.Sprintf("frac-%d", st.shard)})
	}
	return resp, nil
}

type c16Stream struct {
	grpc.ClientStream
	msgs    [][]byte
	pos     int
	breakAt int
	// stall: before it breaks the stream hangs for this long (or until the caller's deadline, whichever is first)
	stall time.Duration
	ctx   context.Context
}

func (s *c16Stream) Recv() (*pb.BinaryData, error) {
	if s.breakAt >= 0 && s.pos >= s.breakAt {
		if s.stall > 0 {
			if err := simWait(s.ctx, s.stall); err != nil {
				return nil, err
			}
		}
		return nil, errors.New("stub: stream broken")
	}
	if s.pos >= len(s.msgs) {
		return nil, io.EOF
	}
	m := s.msgs[s.pos]
	s.pos++
	return &pb.BinaryData{Data: m}, nil
}

func packDoc(id seq.ID, body []byte) []byte {
	b := disk.PackDocBlock(body, nil)
	b.SetExt1(uint64(id.MID))
	b.SetExt2(uint64(id.RID))
	return append([]byte(nil), b...)
}

func (st *c16Stub) Fetch(ctx context.Context, in *pb.FetchRequest, _ ...grpc.CallOption) (pb.StoreApi_FetchClient, error) {
	r := st.r
	st.nf++
	o := SOutcome{Kind: "ok"}
	if sc := r.c.FetchScr[st.host]; st.nf <= len(sc) {
		o = sc[st.nf-1]
	}
	r.res.Fired["fetch_"+o.Kind]++
	rec, _ := ctx.Value(recKey{}).(*reqRecord)
	if rec == nil {
		rec = &reqRecord{searchAns: map[string]string{}, fetchAns: map[string]SOutcome{}, excused: map[seq.ID]string{}, requested: map[seq.ID]bool{}}
	}
	rec.fetchAns[st.host] = o
	var ids []seq.ID
	for _, iw := range in.IdsWithHints {
		id, err := seq.FromString(iw.Id)
		if err != nil {
			return nil, err
		}
		ids = append(ids, id)
		rec.requested[id] = true
	}
	excuse := func(i int, why string) {
		if i >= 0 && i < len(ids) {
			rec.excused[ids[i]] = st.host + ": " + why
		}
	}
	if err := simWait(ctx, time.Duration(o.DelayMs)*time.Millisecond); err != nil {
		for i := range ids {
			excuse(i, "call cancelled")
		}
		return nil, err
	}
	r.logf("%s fetch#%d (%d ids) -> %s at %d n %d", st.host, st.nf, len(in.IdsWithHints), o.Kind, o.At, o.N)
	if o.Kind == "err" {
		for i := range ids {
			excuse(i, "fetch call failed")
		}
		return nil, errors.New("stub: fetch failed")
	}
	have := map[seq.ID]C16Doc{}
	for _, d := range r.docsOf(st.shard, st.cold) {
		have[seq.ID{MID: seq.MID(d.MID), RID: seq.RID(d.RID)}] = d
	}
	stream := &c16Stream{breakAt: -1}
	n := max(1, o.N)
	at := o.At % max(1, len(ids))
	for i, id := range ids {
		var body []byte
		if d, ok := have[id]; ok {
			body = docBody(d)
		} else {
			excuse(i, "store does not hold the document")
		}
		switch {
		case o.Kind == "missing" && i == at:
			body = nil
			excuse(i, "entry delivered empty")
		case o.Kind == "extra" && i >= at && i < at+n:
			stream.msgs = append(stream.msgs, packDoc(seq.ID{MID: 1, RID: seq.RID(42 + i)}, []byte(`{"doc":"intruder"}`)))
		case o.Kind == "dup" && i >= at && i < at+n:
			stream.msgs = append(stream.msgs, packDoc(id, body))
		}
		stream.msgs = append(stream.msgs, packDoc(id, body))
	}
	if o.Kind == "swap" && len(stream.msgs) >= 2 {
		at := o.At % (len(stream.msgs) - 1)
		stream.msgs[at], stream.msgs[at+1] = stream.msgs[at+1], stream.msgs[at]
		excuse(at, "entries reordered")
		excuse(at+1, "entries reordered")
	}
	if o.Kind == "break" || o.Kind == "stall" {
		if o.Kind == "stall" {
			stream.stall, stream.ctx = 90*time.Second, ctx
		}
		stream.breakAt = o.At % (len(stream.msgs) + 1)
		for i := stream.breakAt; i < len(ids); i++ {
			excuse(i, "stream broke before the entry")
		}
	}
	return stream, nil
}

func (st *c16Stub) Bulk(context.Context, *pb.BulkRequest, ...grpc.CallOption) (*emptypb.Empty, error) {
	return nil, errors.New("not used")
}
func (st *c16Stub) StartAsyncSearch(context.Context, *pb.StartAsyncSearchRequest, ...grpc.CallOption) (*pb.StartAsyncSearchResponse, error) {
	return nil, errors.New("not used")
}
func (st *c16Stub) FetchAsyncSearchResult(context.Context, *pb.FetchAsyncSearchResultRequest, ...grpc.CallOption) (*pb.FetchAsyncSearchResultResponse, error) {
	return nil, errors.New("not used")
}
func (st *c16Stub) Status(context.Context, *pb.StatusRequest, ...grpc.CallOption) (*pb.StatusResponse, error) {
	return nil, errors.New("not used")
}

// RunC16 executes one case in its own bubble.
func RunC16(t *testing.T, c *C16Case) *RunResult {
	logger.ResetSink()
	res := &RunResult{Seed: c.Seed, Fired: map[string]int{}, Probes: map[string]int{}}
	r := &c16Runner{c: c, res: res}
	simrand.Seed(c.Seed ^ 0x99)
	s := verifsim.RunBubble(t, verifsim.Config{Seed: c.Seed, PSync: c.PSync, Schedule: c.Schedule, MaxSteps: 300000}, func(s *verifsim.Sim) {
		r.s = s
		r.start = time.Now()
		r.script()
	})
	res.Steps, res.Switches = s.Steps(), s.Switches()
	res.Hash = fmt.Sprintf("%016x", s.InterleavingHash())
	res.Schedule = s.RecordedSchedule()
	res.SimMs = s.SimElapsed().Milliseconds()
	res.Trace = r.log
	if len(res.Violations) > 0 {
		for _, l := range logger.SinkTail() {
			res.Trace = append(res.Trace, "seq-db log: "+l)
		}
	}
	if len(res.Trace) > 120 {
		res.Trace = res.Trace[len(res.Trace)-120:]
	}
	logProbes(res)
	switch {
	case len(s.Failures) > 0:
		res.Outcome, res.Infra = "infra", fmt.Sprint(s.Failures)
	case len(res.Violations) > 0:
		res.Outcome = "violation"
	case s.Outcome != "":
		res.Outcome = "violation"
		res.Violations = append(res.Violations, Violation{"hang", "run ended by " + s.Outcome + "\n" + s.DumpTasks()})
	default:
		res.Outcome = "ok"
	}
	return res
}

func (r *c16Runner) script() {
	c := r.c
	hot := hostsOf("hot", c.Shards, c.Replicas)
	cold := hostsOf("cold", c.ColdShards, c.ColdRepl)
	clients := map[string]pb.StoreApiClient{}
	stubs := map[string]*c16Stub{}
	for si, sh := range hot.Shards {
		for _, h := range sh {
			st := &c16Stub{r: r, host: h, shard: si}
			clients[h], stubs[h] = st, st
		}
	}
	for si, sh := range cold.Shards {
		for _, h := range sh {
			st := &c16Stub{r: r, host: h, shard: si % max(1, c.Shards), cold: true}
			clients[h], stubs[h] = st, st
		}
	}
	ing := search.NewIngestor(search.Config{HotStores: hot, ReadStores: cold, WriteStores: cold, ShuffleReplicas: c.Shuffle}, clients)
	if c.Par && len(c.Requests) > 1 {
		type outcome struct {
			rec  *reqRecord
			qpr  *seq.QPR
			docs search.DocsIterator
			err  error
			done bool
		}
		outs := make([]*outcome, len(c.Requests))
		var tasks []*verifsim.Task
		for qi, rq := range c.Requests {
			qi, rq := qi, rq
			o := &outcome{rec: r.newRec(stubs)}
			outs[qi] = o
			order := seq.DocsOrderDesc
			if !rq.Desc {
				order = seq.DocsOrderAsc
			}
			req := &search.SearchRequest{Q: []byte("k0:a"), Offset: rq.Offset, Size: rq.Size, From: 0, To: seq.MID(1) << 62, WithTotal: true, ShouldFetch: rq.Fetch, Order: order}
			tasks = append(tasks, r.s.GoOn(nil, func() {
				defer func() {
					if p := recover(); p != nil {
						r.res.Probes["proxy_panic_recovered"]++
						o.err, o.done = fmt.Errorf("panic recovered by the interceptor: %v", p), true
					}
				}()
				o.qpr, o.docs, _, o.err = ing.Search(context.WithValue(context.Background(), recKey{}, o.rec), req, querytracer.New(false, ""))
				o.done = true
			}))
		}
		for _, t := range tasks {
			if res := r.s.WaitTask(t, nil, time.Hour); res != "done" {
				r.violate("hang", "a concurrent request did not finish (%s)\n%s", res, r.s.DumpTasks())
				return
			}
		}
		r.res.Probes["concurrent_requests"] += len(outs)
		for qi, o := range outs {
			r.reqRecord = o.rec
			r.logf("concurrent request %d offset=%d size=%d desc=%v fetch=%v", qi, c.Requests[qi].Offset, c.Requests[qi].Size, c.Requests[qi].Desc, c.Requests[qi].Fetch)
			func() {
				defer func() {
					if p := recover(); p != nil {
						r.res.Probes["proxy_panic_recovered"]++
					}
				}()
				r.check(qi, c.Requests[qi], hot, cold, o.qpr, o.docs, o.err)
			}()
			if len(r.res.Violations) > 0 {
				return
			}
		}
		return
	}
	for qi, rq := range c.Requests {
		r.reqRecord = r.newRec(stubs)
		order := seq.DocsOrderDesc
		if !rq.Desc {
			order = seq.DocsOrderAsc
		}
		req := &search.SearchRequest{Q: []byte("k0:a"), Offset: rq.Offset, Size: rq.Size, From: 0, To: seq.MID(1) << 62, WithTotal: true, ShouldFetch: rq.Fetch, Order: order}
		r.logf("request %d offset=%d size=%d desc=%v fetch=%v", qi, rq.Offset, rq.Size, rq.Desc, rq.Fetch)
		// the proxy's gRPC server installs a recovery interceptor: a panic inside the handler (which also
		// drains the documents stream) is an error response, not a dead process
		func() {
			defer func() {
				if p := recover(); p != nil {
					r.res.Probes["proxy_panic_recovered"]++
					r.logf("request %d -> panic recovered by the interceptor: %v", qi, p)
				}
			}()
			ctx := context.WithValue(context.Background(), recKey{}, r.reqRecord)
			if rq.Via == "export" {
				rec := &recIngestor{Ingestor: ing}
				api := proxyapi.VerifNewGrpcV1(proxyapi.APIConfig{SearchTimeout: time.Minute, ExportTimeout: time.Minute}, rec, nil)
				stream := &exportStream{ctx: ctx}
				xerr := api.Export(&seqproxyapi.ExportRequest{Query: &seqproxyapi.SearchQuery{Query: "k0:a", From: timestamppb.New(time.UnixMilli(0)), To: timestamppb.New(time.UnixMilli(4102444800000))},
					Size: int64(rq.Size), Offset: int64(rq.Offset)}, stream)
				r.res.Probes["export_requests"]++
				r.logf("request %d via Export -> %v, %d documents sent (ingestor said: %v)", qi, xerr, len(stream.sent), rec.err)
				if xerr != nil {
					return // an error is always an honest outcome
				}
				if rec.qpr == nil {
					r.violate("export_shape", "request %d: Export returned OK without having searched", qi)
					return
				}
				// Export has no partial flag: what it streams with status OK is presented as complete
				if errors.Is(rec.err, consts.ErrPartialResponse) {
					r.violate("export_silent_partial", "request %d: Export streamed %d documents and ended with status OK although the search was partial: %v", qi, len(stream.sent), rec.err)
					return
				}
				r.check(qi, rq, hot, cold, rec.qpr, &sentDocs{docs: stream.sent}, rec.err)
				return
			}
			if rq.Via == "grpc" {
				rec := &recIngestor{Ingestor: ing}
				api := proxyapi.VerifNewGrpcV1(proxyapi.APIConfig{SearchTimeout: time.Duration(rq.TimeoutMs) * time.Millisecond, ExportTimeout: time.Minute}, rec, nil)
				porder := seqproxyapi.Order_ORDER_DESC
				if !rq.Desc {
					porder = seqproxyapi.Order_ORDER_ASC
				}
				t0 := time.Now()
				// (the two unary handlers that return documents; which one is a function of the request)
				type docsResponse interface {
					GetDocs() []*seqproxyapi.Document
					GetError() *seqproxyapi.Error
					GetPartialResponse() bool
				}
				var resp docsResponse
				var gerr error
				pq := &seqproxyapi.SearchQuery{Query: "k0:a", From: timestamppb.New(time.UnixMilli(0)), To: timestamppb.New(time.UnixMilli(4102444800000))}
				if (rq.Offset+rq.Size+rq.TimeoutMs)%3 == 2 {
					// a handler that fetches nothing: what it says about completeness is all the client gets
					var hr *seqproxyapi.GetHistogramResponse
					hr, gerr = api.GetHistogram(ctx, &seqproxyapi.GetHistogramRequest{Query: pq, Hist: &seqproxyapi.HistQuery{Interval: "1s"}})
					resp = histResp{hr}
					rq.Offset, rq.Size, rq.Fetch, rq.Desc = 0, 0, false, true
					r.res.Probes["grpc_get_histogram_requests"]++
				} else if (rq.Offset+rq.Size+rq.TimeoutMs)%3 == 0 {
					var sr *seqproxyapi.SearchResponse
					sr, gerr = api.Search(ctx, &seqproxyapi.SearchRequest{Query: pq, Size: int64(rq.Size), Offset: int64(rq.Offset), WithTotal: true, Order: porder})
					resp = sr
				} else {
					var cr *seqproxyapi.ComplexSearchResponse
					cr, gerr = api.ComplexSearch(ctx, &seqproxyapi.ComplexSearchRequest{Query: pq, Size: int64(rq.Size), Offset: int64(rq.Offset), WithTotal: true, Order: porder})
					resp = cr
					r.res.Probes["grpc_complex_search_requests"]++
				}
				late := time.Since(t0) >= time.Duration(rq.TimeoutMs)*time.Millisecond
				r.res.Probes["grpc_search_requests"]++
				if late {
					r.res.Probes["grpc_search_deadline_passed"]++
				}
				r.logf("request %d via grpc Search (timeout %d ms, deadline passed: %v) -> %v, code %v partial %v (ingestor said: %v)", qi, rq.TimeoutMs, late, gerr, resp.GetError().GetCode(), resp.GetPartialResponse(), rec.err)
				if gerr != nil || rec.qpr == nil {
					return // an error is always an honest outcome
				}
				var perr error
				switch resp.GetError().GetCode() {
				case seqproxyapi.ErrorCode_ERROR_CODE_NO:
				case seqproxyapi.ErrorCode_ERROR_CODE_PARTIAL_RESPONSE:
					perr = consts.ErrPartialResponse
				default:
					return
				}
				if (perr != nil) != resp.GetPartialResponse() {
					r.violate("partial_flag", "request %d: error code %v but partial_response=%v", qi, resp.GetError().GetCode(), resp.GetPartialResponse())
					return
				}
				// (a handler whose deadline passed while it was collecting the documents has to say so: documents the stores
				// would have delivered may not come back empty under status OK)
				r.check(qi, rq, hot, cold, rec.qpr, &protoDocs{docs: resp.GetDocs()}, perr)
				return
			}
			qpr, docs, _, err := ing.Search(ctx, req, querytracer.New(false, ""))
			r.check(qi, rq, hot, cold, qpr, docs, err)
		}()
		if len(r.res.Violations) > 0 {
			return
		}
	}
}

// tierAnswer evaluates, from what the stubs were scripted to answer in this request, which shards of a
// tier have an answering replica and whether a special code was returned.
func (r *c16Runner) tierAnswer(st *stores.Stores) (answered []int, failed []int, wantsOld, tooMany bool) {
	for si, sh := range st.Shards {
		ok := false
		for _, h := range sh {
			k, called := r.searchAns[h]
			if !called {
				continue
			}
			switch k {
			case "ok":
				ok = true
			case "wants_old":
				wantsOld = true
			case "too_many":
				tooMany = true
			}
		}
		if ok {
			answered = append(answered, si)
		} else {
			failed = append(failed, si)
		}
	}
	return
}

func (r *c16Runner) check(qi int, rq C16Req, hot, cold *stores.Stores, qpr *seq.QPR, docs search.DocsIterator, err error) {
	hotAns, hotFailed, wantsOld, tooMany := r.tierAnswer(hot)
	tier, tierCold := hot, false
	answered, failed := hotAns, hotFailed
	coldCalled := false
	for _, sh := range cold.Shards {
		for _, h := range sh {
			if _, ok := r.searchAns[h]; ok {
				coldCalled = true
			}
		}
	}
	if coldCalled && !wantsOld {
		r.violate("cold_without_reason", "request %d: long-term stores were consulted although no hot store declared the range too old", qi)
		return
	}
	if wantsOld && len(cold.Shards) > 0 && err == nil && !coldCalled {
		r.violate("old_data_not_consulted", "request %d: a hot store declared the range older than its retention, the long-term stores were not consulted and a result was returned", qi)
		return
	}
	if coldCalled {
		var cw, ct bool
		answered, failed, cw, ct = r.tierAnswer(cold)
		tier, tierCold = cold, true
		tooMany = tooMany || ct
		_ = cw
	}
	// an error is always an honest outcome
	if err != nil && !errors.Is(err, consts.ErrPartialResponse) {
		r.logf("request %d -> error %v", qi, err)
		anyFetchFault := false
		for _, o := range r.fetchAns {
			if o.Kind != "ok" {
				anyFetchFault = true
			}
		}
		if len(failed) == 0 && !wantsOld && !tooMany && !tierCold && !anyFetchFault {
			r.violate("spurious_error", "request %d failed with %v although every store answered every call", qi, err)
		}
		return
	}
	if wantsOld && !coldCalled {
		// no long-term tier configured: must have been an error
		r.violate("old_data_not_consulted", "request %d: a hot store wants old data, there is no long-term tier, yet a result was returned", qi)
		return
	}
	partial := errors.Is(err, consts.ErrPartialResponse)
	if len(failed) > 0 && !partial {
		r.violate("silent_partial", "request %d: shards %v of the %s tier had no answering replica but the result is presented as complete (answered: %v; calls %v)", qi, failed, tierName(tierCold), answered, r.searchAns)
		return
	}
	// a shard counts as failed only after its replicas were tried: a replica that was never asked and would
	// have answered whenever asked means the shard did have an answering replica
	if r.startNs != nil {
		for _, si := range failed {
			shortCut, cancelled := false, false
			var untried []string
			for _, h := range tier.Shards[si] {
				switch k, called := r.searchAns[h]; {
				case !called:
					if r.healthyFrom(h, r.startNs[h]) {
						untried = append(untried, h)
					}
				case k == "wants_old" || k == "too_many":
					shortCut = true
				case k == "cancelled":
					cancelled = true
				}
			}
			if len(untried) > 0 && !shortCut && !cancelled {
				sort.Strings(untried)
				r.violate("replica_not_tried", "request %d: shard %d of the %s tier is reported as not answering, but its replicas %v, scripted to answer every call, were never asked (calls of this request: %v)", qi, si, tierName(tierCold), untried, r.searchAns)
				return
			}
		}
	}
	if len(failed) == 0 && partial {
		r.violate("false_partial", "request %d: every shard answered but the result is flagged partial: %v", qi, err)
		return
	}
	// ids = correct top over exactly the answering shards
	var want []C16Doc
	for _, si := range answered {
		shard := si
		if tierCold {
			shard = si % max(1, r.c.Shards)
		}
		want = append(want, r.docsOf(shard, tierCold)...)
	}
	// shards of the cold tier may map to the same slice; dedupe by id
	seen := map[[2]uint64]bool{}
	var uniq []C16Doc
	for _, d := range want {
		k := [2]uint64{d.MID, d.RID}
		if !seen[k] {
			seen[k] = true
			uniq = append(uniq, d)
		}
	}
	want = uniq
	sortDocs(want, rq.Desc)
	total := len(want)
	if len(want) > rq.Offset {
		want = want[rq.Offset:]
	} else {
		want = nil
	}
	if len(want) > rq.Size {
		want = want[:rq.Size]
	}
	if len(qpr.IDs) != len(want) {
		r.violate("wrong_ids", "request %d (offset %d size %d): %d ids returned, the merged top over the answering shards %v has %d", qi, rq.Offset, rq.Size, len(qpr.IDs), answered, len(want))
		return
	}
	for i, id := range qpr.IDs {
		if uint64(id.ID.MID) != want[i].MID || uint64(id.ID.RID) != want[i].RID {
			r.violate("wrong_ids", "request %d: position %d is %d-%d, the merged top over the answering shards says %d-%d", qi, i, id.ID.MID, id.ID.RID, want[i].MID, want[i].RID)
			return
		}
	}
	_ = total
	// documents: i-th document belongs to the i-th id, or is empty
	if rq.Fetch && len(qpr.IDs) > 0 {
		byID := map[[2]uint64]C16Doc{}
		for _, d := range r.c.Docs {
			byID[[2]uint64{d.MID, d.RID}] = d
		}
		n := 0
		for {
			d, derr := docs.Next()
			if derr != nil {
				break
			}
			if n < len(qpr.IDs) {
				r.logf("  doc %d: id %d-%d source %d -> %d bytes", n, qpr.IDs[n].ID.MID, qpr.IDs[n].ID.RID, qpr.IDs[n].Source, len(d.Data))
			}
			if n >= len(qpr.IDs) {
				r.violate("docs_alignment", "request %d: the documents stream yields more entries than ids (%d)", qi, len(qpr.IDs))
				return
			}
			id := qpr.IDs[n]
			if len(d.Data) > 0 {
				wantBody := docBody(byID[[2]uint64{uint64(id.ID.MID), uint64(id.ID.RID)}])
				if string(d.Data) != string(wantBody) {
					r.violate("docs_alignment", "request %d: document %d is %q but id %d is %d-%d (%q expected or empty)", qi, n, d.Data, n, id.ID.MID, id.ID.RID, wantBody)
					return
				}
			} else {
				r.res.Probes["empty_doc"]++
				if why, ok := r.excused[id.ID]; !ok {
					r.violate("undelivered_doc", "request %d: document %d (id %d-%d) came back empty although every store asked for it delivered it (requested from a store: %v; fetch calls %v)", qi, n, id.ID.MID, id.ID.RID, r.requested[id.ID], r.fetchAns)
					return
				} else {
					_ = why
				}
			}
			n++
		}
		if n != len(qpr.IDs) {
			r.violate("docs_alignment", "request %d: %d ids but %d document entries", qi, len(qpr.IDs), n)
			return
		}
		// a store that delivered everything must not produce empties
		anyFetchFault := false
		for _, o := range r.fetchAns {
			if o.Kind != "ok" {
				anyFetchFault = true
			}
		}
		if !anyFetchFault && r.res.Probes["empty_doc"] > 0 && len(r.fetchAns) > 0 {
			// recount for this request only
		}
	}
	r.logf("request %d ok: %d ids over shards %v partial=%v cold=%v", qi, len(qpr.IDs), answered, partial, tierCold)
}

func tierName(cold bool) string {
	if cold {
		return "long-term"
	}
	return "hot"
}

// GenC16 builds the case of a seed.
func GenC16(seed uint64, thorough bool) *C16Case {
	r := verifsim.NewSplitMix(seed).Split("c16")
	c := &C16Case{Property: "C16", Seed: seed}
	c.Shards, c.Replicas = r.Range(1, 3), r.Range(1, 3)
	if r.Bool(0.5) {
		c.ColdShards, c.ColdRepl = r.Range(1, 2), r.Range(1, 2)
	}
	c.Shuffle = r.Bool(0.3)
	c.Par = r.Bool(0.2)
	c.PSync = []float64{0, 0.1, 0.4}[r.Intn(3)]
	n := r.Range(0, 30)
	for i := 0; i < n; i++ {
		c.Docs = append(c.Docs, C16Doc{MID: 1000 + uint64(r.Intn(12)), RID: uint64(i + 1), Shard: r.Intn(c.Shards), Cold: r.Bool(0.2)})
	}
	c.SearchScr, c.FetchScr = map[string][]SOutcome{}, map[string][]SOutcome{}
	failRate := []float64{0, 0.2, 0.5}[r.Intn(3)]
	script := func(prefix string, shards, replicas int) {
		for s := 0; s < shards; s++ {
			for rep := 0; rep < replicas; rep++ {
				h := fmt.Sprintf("%s-%d-%d", prefix, s, rep)
				var ss, fs []SOutcome
				for i := 0; i < 5; i++ {
					o := SOutcome{Kind: "ok", DelayMs: r.Intn(50)}
					if r.Bool(failRate) {
						kinds := []string{"err", "err", "err", "too_many"}
						if prefix == "hot" {
							kinds = append(kinds, "wants_old")
						}
						o.Kind = kinds[r.Intn(len(kinds))]
					}
					ss = append(ss, o)
					f := SOutcome{Kind: "ok", DelayMs: r.Intn(30)}
					if r.Bool(failRate) {
						f.Kind = []string{"err", "break", "missing", "extra", "dup", "swap", "stall"}[r.Intn(7)]
						f.At = r.Intn(8)
						if (f.Kind == "extra" || f.Kind == "dup") && r.Bool(0.5) {
							f.N = r.Range(2, 3)
						}
					}
					fs = append(fs, f)
				}
				c.SearchScr[h], c.FetchScr[h] = ss, fs
			}
		}
	}
	script("hot", c.Shards, c.Replicas)
	script("cold", c.ColdShards, c.ColdRepl)
	for i := 0; i < r.Range(1, 4); i++ {
		rq := C16Req{Offset: []int{0, 0, 0, 2, 5}[r.Intn(5)], Size: []int{1, 3, 10, 100}[r.Intn(4)], Desc: r.Bool(0.6), Fetch: r.Bool(0.7)}
		if r.Bool(0.15) {
			rq.Via, rq.Desc, rq.Fetch = "export", true, true // Export has no order parameter and always fetches
		} else if rg := verifsim.NewSplitMix(seed ^ uint64(i+1)*0x6a09).Split("c16-grpc"); rg.Bool(0.15) {
			// the Search handler with its own deadline: some stores will still be working when it passes
			rq.Via, rq.Fetch, rq.TimeoutMs = "grpc", true, []int{10, 25, 40, 70, 60000}[rg.Intn(5)]
		}
		c.Requests = append(c.Requests, rq)
	}
	return c
}

package proxysim

import (
	"encoding/json"

	"fmt"
	"github.com/ozontech/seq-db/verifsim"
	"os"
	"runtime"
	"strings"
	"testing"
)

type Job struct {
	Mode     string          `json:"mode"`
	Property string          `json:"property"`
	Seed     uint64          `json:"seed"`
	Count    int             `json:"count"`
	Thorough bool            `json:"thorough"`
	Case     json.RawMessage `json:"case"`
}

type batch struct {
	Property string         `json:"property"`
	Seed     uint64         `json:"seed"`
	Outcome  string         `json:"outcome"`
	Runs     int            `json:"runs"`
	NonTriv  int            `json:"nontriv_runs"`
	Hashes   []string       `json:"hashes"`
	Steps    int            `json:"steps"`
	SimMs    int64          `json:"sim_ms"`
	Fired    map[string]int `json:"fired"`
	Probes   map[string]int `json:"probes"`
	Sample   any            `json:"sample,omitempty"`
}

func emit(prefix string, x any) {
	out, _ := json.Marshal(x)
	fmt.Printf("%s %s\n", prefix, out)
}

// runOne dispatches on the property; returns the result, the explicit case (with schedule) and a sample.
var batchBase uint64

func runOne(t *testing.T, prop string, seed uint64, thorough bool, raw json.RawMessage) (*RunResult, any) {
	switch prop {
	case "C09":
		var c *C09Case
		if raw != nil {
			c = &C09Case{}
			if err := json.Unmarshal(raw, c); err != nil {
				t.Fatal(err)
			}
		} else {
			c = GenC09(seed, thorough)
		}
		res := RunC09(t, c)
		cc := *c
		cc.Schedule = res.Schedule
		return res, &cc
	}
	if prop == "C10" {
		var c *C10Case
		if raw != nil {
			c = &C10Case{}
			if err := json.Unmarshal(raw, c); err != nil {
				t.Fatal(err)
			}
		} else {
			c = GenC10(seed, thorough, []int{64, 200, 1024, 4096}[(batchBase/7)%4])
		}
		res := RunC10(t, c)
		cc := *c
		if c.Par > 1 {
			cc.Schedule = res.Schedule
		}
		return res, &cc
	}
	if prop == "C16" {
		var c *C16Case
		if raw != nil {
			c = &C16Case{}
			if err := json.Unmarshal(raw, c); err != nil {
				t.Fatal(err)
			}
		} else {
			c = GenC16(seed, thorough)
		}
		res := RunC16(t, c)
		cc := *c
		cc.Schedule = res.Schedule
		return res, &cc
	}
	t.Fatalf("unknown property %q", prop)
	return nil, nil
}

func TestWorker(t *testing.T) {
	v := os.Getenv("VERIF_JOB")
	if v == "" {
		t.Skip("VERIF_JOB not set")
	}
	data := []byte(v)
	if !strings.HasPrefix(strings.TrimSpace(v), "{") {
		data, _ = os.ReadFile(v)
	}
	var job Job
	if err := json.Unmarshal(data, &job); err != nil {
		t.Fatal(err)
	}
	full := func(res *RunResult, prop string) map[string]any {
		return map[string]any{"property": prop, "seed": res.Seed, "outcome": res.Outcome, "violations": res.Violations, "steps": res.Steps,
			"switches": res.Switches, "hash": res.Hash, "digest": res.Hash, "trace": res.Trace, "infra": res.Infra, "nontrivial": true, "fired": res.Fired, "sim_ms": res.SimMs}
	}
	if job.Mode == "replay" {
		res, _ := runOne(t, job.Property, 0, false, job.Case)
		emit("RESULT", full(res, job.Property))
		return
	}
	if job.Count <= 0 {
		job.Count = 1
	}
	batchBase = job.Seed
	b := batch{Property: job.Property, Seed: job.Seed, Outcome: "ok", Fired: map[string]int{}, Probes: map[string]int{}}
	seen := map[string]bool{}
	for i := 0; i < job.Count; i++ {
		res, c := runOne(t, job.Property, job.Seed+uint64(i), job.Thorough, nil)
		b.Runs++
		b.Steps += res.Steps
		b.SimMs += res.SimMs
		for k, v := range res.Fired {
			b.Fired[k] += v
		}
		for k, v := range res.Probes {
			b.Probes[k] += v
		}
		nontrivial := res.Switches > 0
		for k, v := range res.Fired {
			if k != "ok" && v > 0 {
				nontrivial = true
			}
		}
		if nontrivial {
			b.NonTriv++
			key := res.Hash + fmt.Sprint(res.Fired)
			if !seen[key] {
				seen[key] = true
				b.Hashes = append(b.Hashes, fmt.Sprintf("%016x", verifsim.HashStr(key)))
			}
		}
		if b.Sample == nil && nontrivial && i >= 2 {
			b.Sample = map[string]any{"case": c, "trace": res.Trace, "fired": res.Fired}
		}
		if res.Outcome == "violation" || res.Outcome == "infra" || (job.Count == 1 && (os.Getenv("VERIF_FULLTRACE") != "" || os.Getenv("VERIF_SELFTEST") != "")) {
			emit("RESULT", full(res, job.Property))
			emit("CASE", c)
		}
		if i%50 == 49 {
			runtime.GC()
		}
	}
	emit("RESULT", &b)
}

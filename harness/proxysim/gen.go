package proxysim

import (
	"strings"

	"fmt"
	"github.com/ozontech/seq-db/logger"

	"github.com/ozontech/seq-db/verifsim"
)

// GenC09 builds the case of a seed.
func GenC09(seed uint64, thorough bool) *C09Case {
	r := verifsim.NewSplitMix(seed).Split("c09")
	c := &C09Case{Property: "C09", Seed: seed}
	c.HotShards, c.HotReplicas = r.Range(1, 3), r.Range(1, 3)
	if r.Bool(0.5) {
		c.ColdShards, c.ColdReplicas = r.Range(1, 3), r.Range(1, 3)
	}
	c.TimeoutMs = []int{50, 200, 1000}[r.Intn(3)]
	c.VolumeThr = []int64{1, 3, 20, 101}[r.Intn(4)]
	c.ErrPct = []int64{10, 50, 100}[r.Intn(3)]
	c.SleepWinMs = []int{100, 1000, 5000}[r.Intn(3)]
	c.PSync = []float64{0, 0.1, 0.4}[r.Intn(3)]
	c.Script = map[string][]Outcome{}
	failRate := []float64{0.1, 0.3, 0.6}[r.Intn(3)]
	add := func(prefix string, shards, replicas int) {
		for s := 0; s < shards; s++ {
			for rep := 0; rep < replicas; rep++ {
				var sc []Outcome
				n := r.Range(0, 10)
				for i := 0; i < n; i++ {
					o := Outcome{Kind: "ok", DelayMs: r.Intn(30)}
					if r.Bool(failRate) {
						switch r.Intn(5) {
						case 0:
							o = Outcome{Kind: "err", DelayMs: r.Intn(40)}
						case 1:
							o = Outcome{Kind: "hang"}
						case 2:
							o = Outcome{Kind: "slow_ok", DelayMs: c.TimeoutMs + r.Range(1, 200)}
						case 3:
							o = Outcome{Kind: "lost", DelayMs: r.Intn(40)}
						default:
							o = Outcome{Kind: "ok", DelayMs: c.TimeoutMs - 1 + r.Intn(3)} // right at the deadline
						}
					}
					sc = append(sc, o)
				}
				c.Script[fmt.Sprintf("%s-%d-%d", prefix, s, rep)] = sc
			}
		}
	}
	add("hot", c.HotShards, c.HotReplicas)
	add("cold", c.ColdShards, c.ColdReplicas)
	nclients := r.Range(1, 2)
	for i := 0; i < nclients; i++ {
		var sizes []int
		for j := 0; j < r.Range(1, 4); j++ {
			sizes = append(sizes, r.Range(1, 200))
		}
		c.Clients = append(c.Clients, sizes)
	}
	switch x := r.Intn(20); {
	case x < 5:
		c.CtxMs = []int{1, 20, 120, 600, 3000}[r.Intn(5)]
	case x == 5:
		c.CtxMs = -1
	}
	// a fifth of the cases without a request context: the payloads go through the real ingestor (pooled compressor
	// and buffers), two or three clients at once
	if rv := verifsim.NewSplitMix(seed ^ 0x1962).Split("c09-ingestor"); c.CtxMs == 0 && rv.Bool(0.25) {
		c.ViaIngestor = true
		for len(c.Clients) < 2+rv.Intn(2) {
			c.Clients = append(c.Clients, []int{rv.Range(1, 200), rv.Range(1, 200)})
		}
	}
	return c
}

// logProbes records which warn/error messages of seq-db were logged during the run (reach statistics).
func logProbes(res *RunResult) {
	for k, v := range logger.SinkSnapshot() {
		if !strings.HasPrefix(k, "info:") {
			res.Probes["log:"+k] = v
		}
	}
}

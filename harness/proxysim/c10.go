package proxysim

import (
	"sort"
	"bytes"
	"compress/gzip"
	"context"
	"encoding/binary"
	"encoding/json"
	"errors"
	"fmt"
	"github.com/ozontech/seq-db/logger"
	"io"
	"net/http"
	"net/http/httptest"
	"strings"
	"testing"
	"time"

	"github.com/ozontech/seq-db/disk"
	"github.com/ozontech/seq-db/frac"
	"github.com/ozontech/seq-db/mappingprovider"
	"github.com/ozontech/seq-db/proxy/bulk"
	"github.com/ozontech/seq-db/proxyapi"
	"github.com/ozontech/seq-db/seq"
	"github.com/ozontech/seq-db/verifsim"
	"github.com/ozontech/seq-db/verifsim/simrandv2"
)

// C10Line is one line of an ES bulk body.
type C10Line struct {
	Kind string `json:"k"` // action | doc | nonobject | invalid | oversize | empty | badaction
	Text string `json:"text"`
	CRLF bool   `json:"crlf,omitempty"`
	// doc: time field
	TimeField  string `json:"time_field,omitempty"`
	TimeFormat string `json:"time_format,omitempty"` // es | rfc3339 | rfc3339nano | garbage
	OffsetMs   int64  `json:"offset_ms,omitempty"`   // document time = request time + offset
	// a second time field of another name, with its own format and instant (@TIME2@)
	TimeField2  string `json:"time_field2,omitempty"`
	TimeFormat2 string `json:"time_format2,omitempty"`
	OffsetMs2   int64  `json:"offset_ms2,omitempty"`
	// an absolute time text used verbatim instead of request time + offset (centuries away from any clock)
	AbsTime string `json:"abs_time,omitempty"`
}

// C10Case is one explicit run.
type C10Case struct {
	Property   string    `json:"property"`
	Seed       uint64    `json:"seed"`
	Lines      []C10Line `json:"ops"`
	NoFinalNL  bool      `json:"no_final_newline,omitempty"`
	TruncateAt int       `json:"truncate_at,omitempty"` // >0: the body ends (EOF) after that many bytes
	ErrorAt    int       `json:"error_at,omitempty"`    // >0: the body reader fails after that many bytes
	// ErrWithData: the failing read hands over the last bytes together with io.ErrUnexpectedEOF and every later
	// read says io.EOF - what the body of a net/http request does when the peer goes away before Content-Length
	// is reached. ErrLine > 0 puts that point at the end of the n-th line of the body (before its newline).
	ErrWithData bool `json:"err_with_data,omitempty"`
	ErrLine     int  `json:"err_line,omitempty"`
	Gzip       bool      `json:"gzip,omitempty"`
	MaxDocSize int       `json:"max_doc_size"`
	// SlowMs: the body arrives slowly: this much simulated time passes between chunks (the request time is the time of
	// receipt, whatever the clock says when a line is parsed)
	SlowMs     int64     `json:"slow_ms,omitempty"`
	DriftMs    int64     `json:"drift_ms"`
	FutureMs   int64     `json:"future_drift_ms"`
	StoreFails bool      `json:"store_fails,omitempty"`
	ClockMs    int64     `json:"clock_ms"`    // simulated time before the request
	ChunkSeeds []uint64  `json:"chunk_seeds"` // one delivery of the same body per seed (0 = whole body at once, 1 = byte by byte)
	// concurrent phase: Par requests (the same lines, each document marked with its request number)
	// sent at once to one handler/ingestor, optionally after a request whose store call failed
	// sequential phase on one long-lived ingestor (as in production): the clock advances by GapMs[i]
	// before delivery i, so pooled per-request state meets requests of different times
	// a request that is sent before everything else and leaves used pooled objects behind:
	// reject_after_valid (valid documents, then an invalid line) | store_fails | read_error | ok
	Prelude        string  `json:"prelude,omitempty"`
	SharedIngestor bool    `json:"shared_ingestor,omitempty"`
	GapMs          []int64 `json:"gap_ms,omitempty"`
	Par            int     `json:"par,omitempty"`
	ParFailFirst   bool    `json:"par_fail_first,omitempty"`
	// ParGzip: the concurrent requests are gzip bodies; before them one ordinary gzip request and one that announces
	// gzip without being it (400) go through the same handler
	ParGzip bool `json:"par_gzip,omitempty"`
	PSync          float64 `json:"p_sync,omitempty"`
	Schedule       []int   `json:"schedule,omitempty"`
}

type storedDoc struct {
	body string
	mid  uint64
}

type c10Outcome struct {
	status int
	items  int
	stored []storedDoc
	calls  int
}

type captureClient struct {
	fail  bool
	calls int
	docs  []storedDoc
	err   string
	// per call: the documents of that call (concurrent phase)
	perCall [][]storedDoc
}

func (c *captureClient) StoreDocuments(_ context.Context, count int, docs, metas []byte) error {
	c.calls++
	if c.fail {
		return errors.New("stub: stores unavailable")
	}
	raw, err := disk.DocBlock(docs).DecompressTo(nil)
	if err != nil {
		c.err = "docs payload does not decompress: " + err.Error()
		return nil
	}
	var bodies []string
	for len(raw) > 0 {
		n := binary.LittleEndian.Uint32(raw)
		raw = raw[4:]
		bodies = append(bodies, string(raw[:n]))
		raw = raw[n:]
	}
	mraw, err := disk.DocBlock(metas).DecompressTo(nil)
	if err != nil {
		c.err = "metas payload does not decompress: " + err.Error()
		return nil
	}
	var mids []uint64
	for len(mraw) > 0 {
		n := binary.LittleEndian.Uint32(mraw)
		mraw = mraw[4:]
		var md frac.MetaData
		if err := md.UnmarshalBinary(mraw[:n]); err != nil {
			c.err = "meta does not decode: " + err.Error()
			return nil
		}
		mraw = mraw[n:]
		if md.Size > 0 {
			mids = append(mids, uint64(md.ID.MID))
		}
	}
	if len(bodies) != count || len(mids) != count {
		c.err = fmt.Sprintf("count=%d but payload holds %d documents and %d metas", count, len(bodies), len(mids))
	}
	var call []storedDoc
	for i := range bodies {
		d := storedDoc{body: bodies[i]}
		if i < len(mids) {
			d.mid = mids[i]
		}
		c.docs = append(c.docs, d)
		call = append(call, d)
	}
	c.perCall = append(c.perCall, call)
	return nil
}

// chunkReader delivers the body in seeded chunks and may end or fail early.
type chunkReader struct {
	data   []byte
	pos    int
	rng    *verifsim.SplitMix
	mode   uint64
	errAt  int
	// withData: see C10Case.ErrWithData
	withData bool
	errDone  bool
	closed   bool
	yield  bool // concurrent phase: every Read is a scheduling point
	// slow upload: simulated time passes before a Read that is not the first (at most six times per body)
	slow  time.Duration
	slept int
}

func (r *chunkReader) Read(p []byte) (int, error) {
	if r.yield {
		verifsim.Yield(0)
	}
	if r.slow > 0 && r.pos > 0 && r.slept < 6 {
		r.slept++
		simWait(context.Background(), r.slow)
	}
	if r.errDone {
		return 0, io.EOF
	}
	if r.errAt > 0 && r.pos >= r.errAt {
		return 0, errors.New("stub: connection reset by peer")
	}
	if r.pos >= len(r.data) {
		return 0, io.EOF
	}
	n := len(p)
	switch r.mode {
	case 0:
	case 1:
		n = 1
	default:
		n = 1 + r.rng.Intn(min(len(p), 97))
	}
	n = min(n, len(r.data)-r.pos)
	if r.errAt > 0 {
		n = min(n, r.errAt-r.pos)
	}
	copy(p, r.data[r.pos:r.pos+n])
	r.pos += n
	if r.withData && r.errAt > 0 && r.pos >= r.errAt {
		r.errDone = true
		return n, io.ErrUnexpectedEOF
	}
	return n, nil
}
func (r *chunkReader) Close() error { r.closed = true; return nil }

func formatTime(t time.Time, f string) string {
	switch f {
	case "es":
		return t.UTC().Format("2006-01-02 15:04:05.000")
	case "rfc3339":
		return t.UTC().Format(time.RFC3339)
	case "rfc3339nano":
		return t.UTC().Format(time.RFC3339Nano)
	}
	return "yesterday at noon"
}

// body renders the request body for a request time.
// marked returns the case with every document line carrying the request number, so that the
// documents of concurrent requests are pairwise different.
func (c *C10Case) marked(i int) *C10Case {
	cp := *c
	cp.Lines = append([]C10Line(nil), c.Lines...)
	for j := range cp.Lines {
		if l := &cp.Lines[j]; l.Kind == "doc" && strings.HasPrefix(strings.TrimLeft(l.Text, " \t"), "{") {
			k := strings.IndexByte(l.Text, '{')
			l.Text = l.Text[:k] + fmt.Sprintf(`{"rq":%d,`, i) + l.Text[k+1:]
		}
	}
	return &cp
}

func (c *C10Case) body(now time.Time) []byte {
	var b bytes.Buffer
	for i, l := range c.Lines {
		text := l.Text
		if l.Kind == "doc" && l.TimeField != "" {
			if l.AbsTime != "" {
				text = strings.Replace(text, "@TIME@", l.AbsTime, 1)
			}
			text = strings.Replace(text, "@TIME@", formatTime(now.Add(time.Duration(l.OffsetMs)*time.Millisecond), l.TimeFormat), 1)
			if l.TimeField2 != "" {
				text = strings.Replace(text, "@TIME2@", formatTime(now.Add(time.Duration(l.OffsetMs2)*time.Millisecond), l.TimeFormat2), 1)
			}
		}
		b.WriteString(text)
		if i == len(c.Lines)-1 && c.NoFinalNL {
			break
		}
		if l.CRLF {
			b.WriteString("\r\n")
		} else {
			b.WriteString("\n")
		}
	}
	out := b.Bytes()
	if c.TruncateAt > 0 && c.TruncateAt < len(out) {
		out = out[:c.TruncateAt]
	}
	return out
}

// reference is the independent framing parser: what must be stored for this body.
// ok=false: the request must be rejected and nothing stored.
// ambiguous=true: some line is exactly as long as the limit (a cut body produces lines of any length);
// whether that is "within" the limit is left open, only chunking independence is checked then.
func (c *C10Case) reference(body []byte, now time.Time) (docs []storedDoc, ok bool, ambiguous bool) {
	for _, ln := range strings.Split(string(body), "\n") {
		if n := len(strings.TrimSuffix(ln, "\r")); n >= c.MaxDocSize-1 && n <= c.MaxDocSize+1 {
			return nil, true, true
		}
	}
	docs, ok, _ = c.reference1(body, now, false)
	return docs, ok, false
}

// laxShapes are document lines that are NOT valid JSON but that the decoder of the bulk processor takes
// (known finding, see known_findings.json): name -> text.
var laxShapes = map[string]string{
	"number with two fractions":      `{"k0":"v","n":1.2.3}`,
	"lone minus sign":                `{"k0":"v","n":-}`,
	"number with a plus sign":        `{"k0":"v","n":+1}`,
	"number with a leading zero":     `{"k0":"v","n":01}`,
	"unknown escape in a string":     `{"k0":"v","s":"\x"}`,
	"short unicode escape":           `{"k0":"v","s":"\u12"}`,
	"raw TAB inside a string":        "{\"k0\":\"v\",\"s\":\"a\tb\"}",
	"text after the closing brace":   `{"k0":"v"} x`,
}

func laxShapeOf(doc string) string {
	for name, text := range laxShapes {
		if doc == text {
			return name
		}
	}
	return ""
}

// expectation is the reference outcome for a body. The strict rule rejects a request with a document
// line that is not valid JSON. Where the only such lines are of the known lax shapes AND the
// implementation accepted the request, the known finding is named (lax != "") and the rest of the request
// is judged as if those lines were well-formed object documents, so that everything else stays checked.
func (c *C10Case) expectation(body []byte, now time.Time, accepted bool) (docs []storedDoc, ok, ambiguous bool, lax string) {
	docs, ok, ambiguous = c.reference(body, now)
	if ambiguous || ok || !accepted {
		return docs, ok, ambiguous, ""
	}
	if ld, lok, shape := c.reference1(body, now, true); lok && shape != "" {
		return ld, true, false, shape
	}
	return docs, ok, ambiguous, ""
}

// effErrAt is the byte position at which the body reader fails (0 = never).
func (c *C10Case) effErrAt(wire []byte) int {
	if c.ErrorAt <= 0 {
		return 0
	}
	if c.ErrLine > 0 {
		// the end of the ErrLine-th line (before its line terminator), if the body has that many lines
		off, ln := 0, 0
		for off < len(wire) {
			i := bytes.IndexByte(wire[off:], '\n')
			if i < 0 {
				break
			}
			ln++
			if ln == c.ErrLine && off+i > 0 {
				at := off + i
				if i > 0 && wire[at-1] == '\r' {
					at--
				}
				if at > 0 {
					return at
				}
			}
			off += i + 1
		}
	}
	return c.ErrorAt
}

func (c *C10Case) reference1(body []byte, now time.Time, lenient bool) (docs []storedDoc, ok bool, lax string) {
	if e := c.effErrAt(body); e > 0 && e <= len(body) {
		return nil, false, ""
	}
	// split into lines the way a line reader does: '\n' terminates, an optional '\r' before it is dropped
	var lines []string
	rest := string(body)
	for len(rest) > 0 {
		i := strings.IndexByte(rest, '\n')
		if i < 0 {
			lines = append(lines, rest) // a last line without newline still counts (a lone trailing CR belongs to it)
			break
		}
		lines = append(lines, strings.TrimSuffix(rest[:i], "\r"))
		rest = rest[i+1:]
	}
	actions := 0
	for i := 0; i < len(lines); {
		// action line: skip empty lines
		for i < len(lines) && lines[i] == "" {
			i++
		}
		if i >= len(lines) {
			break
		}
		action := lines[i]
		i++
		if len(action) > c.MaxDocSize {
			return nil, false, "" // action line too long
		}
		if actions < 5 && !strings.Contains(action, `"create"`) && !strings.Contains(action, `"index"`) {
			return nil, false, ""
		}
		actions++
		if i >= len(lines) {
			return nil, false, "" // action line without document
		}
		doc := lines[i]
		i++
		if len(doc) > c.MaxDocSize {
			continue // over-size document: skipped together with its action line
		}
		if doc == "" {
			return nil, false, ""
		}
		if !json.Valid([]byte(doc)) {
			if shape := laxShapeOf(doc); lenient && shape != "" {
				lax = shape
				docs = append(docs, storedDoc{body: doc, mid: uint64(now.UnixMilli())})
				continue
			}
			return nil, false, ""
		}
		if t := strings.TrimSpace(doc); !strings.HasPrefix(t, "{") {
			continue // not an object: skipped
		}
		// time rule
		var m map[string]any
		json.Unmarshal([]byte(doc), &m)
		mid := uint64(now.UnixMilli())
		for _, f := range []string{"timestamp", "time", "ts"} {
			v, isStr := m[f].(string)
			if !isStr || v == "" {
				continue
			}
			var dt time.Time
			parsed := false
			for _, layout := range []string{"2006-01-02 15:04:05.999", time.RFC3339Nano, time.RFC3339} {
				if t, err := time.Parse(layout, v); err == nil {
					dt, parsed = t, true
					break
				}
			}
			if parsed {
				// compared as instants, not as a duration: the distance to a time centuries away does not fit one
				if !dt.Before(now.Add(-time.Duration(c.DriftMs)*time.Millisecond)) && !dt.After(now.Add(time.Duration(c.FutureMs)*time.Millisecond)) {
					mid = uint64(dt.UnixMilli())
				}
				break
			}
		}
		docs = append(docs, storedDoc{body: doc, mid: mid})
	}
	return docs, true, lax
}

var c10Mapping = seq.Mapping{
	"k0":  seq.NewSingleType(seq.TokenizerTypeKeyword, "", 0),
	"msg": seq.NewSingleType(seq.TokenizerTypeText, "", 0),
}

// RunC10 executes one case: the same body is delivered once per chunk seed.
func RunC10(t *testing.T, c *C10Case) *RunResult {
	logger.ResetSink()
	res := &RunResult{Seed: c.Seed, Fired: map[string]int{}, Probes: map[string]int{}}
	var log []string
	violate := func(clause, f string, a ...any) {
		for _, v := range res.Violations {
			if v.Clause == clause {
				return
			}
		}
		d := fmt.Sprintf(f, a...)
		if len(d) > 900 {
			d = d[:900]
		}
		res.Violations = append(res.Violations, Violation{clause, d})
		log = append(log, "VIOLATION "+clause+": "+d)
	}
	simrandv2.Seed(c.Seed ^ 0x10)
	s := verifsim.RunBubble(t, verifsim.Config{Seed: c.Seed, PSync: c.PSync, Schedule: c.Schedule, MaxSteps: 400000, IdleLimit: 100000 * time.Hour}, func(s *verifsim.Sim) {
		s.SleepSim(time.Duration(c.ClockMs) * time.Millisecond)
		mp, err := mappingprovider.New("", mappingprovider.WithMapping(c10Mapping))
		if err != nil {
			panic(err)
		}
		var first *c10Outcome
		var firstBody []byte
		newIngestor := func(client *captureClient) (*bulk.Ingestor, http.Handler) {
			ing := bulk.NewIngestor(c10BulkConfig(c, mp), client)
			return ing, proxyapi.NewBulkHandler(ing, c.MaxDocSize)
		}
		if c.Prelude != "" {
			pc := &captureClient{fail: c.Prelude == "store_fails"}
			ping, ph := newIngestor(pc)
			body := `{"index":{}}` + "\n" + `{"k0":"prelude-1","msg":"left behind"}` + "\n" + `{"index":{}}` + "\n" + `{"k0":"prelude-2","msg":"left behind too"}` + "\n"
			if c.Prelude == "reject_after_valid" {
				body += `{"index":{}}` + "\n" + `{"k0":` + "\n"
			}
			rd := &chunkReader{data: []byte(body), rng: verifsim.NewSplitMix(7), mode: 0}
			if c.Prelude == "read_error" {
				rd.errAt = len(body) - 5
			}
			rec := httptest.NewRecorder()
			ph.ServeHTTP(rec, httptest.NewRequest(http.MethodPost, "/_bulk", rd))
			ping.Stop()
			res.Fired["prelude_"+c.Prelude]++
			log = append(log, fmt.Sprintf("prelude %s -> status %d, %d documents handed to storage", c.Prelude, rec.Code, len(pc.docs)))
			if c.Prelude != "ok" && (rec.Code == 200 || (len(pc.docs) > 0 && c.Prelude != "store_fails")) {
				violate("accepted_bad_request", "prelude request (%s) must be rejected and store nothing: status %d, %d documents", c.Prelude, rec.Code, len(pc.docs))
				return
			}
		}
		sharedClient := &captureClient{fail: c.StoreFails}
		var sharedIng *bulk.Ingestor
		var sharedH http.Handler
		if c.SharedIngestor {
			sharedIng, sharedH = newIngestor(sharedClient)
			defer sharedIng.Stop()
		}
		for di, cs := range c.ChunkSeeds {
			client := &captureClient{fail: c.StoreFails}
			var ing *bulk.Ingestor
			var h http.Handler
			if c.SharedIngestor {
				if di < len(c.GapMs) {
					s.SleepSim(time.Duration(c.GapMs[di]) * time.Millisecond)
				}
				client, ing, h = sharedClient, sharedIng, sharedH
				client.docs, client.calls, client.err = nil, 0, ""
			} else {
				ing, h = newIngestor(client)
			}
			now := time.Now()
			body := c.body(now)
			wire := body
			if c.Gzip {
				var zb bytes.Buffer
				zw := gzip.NewWriter(&zb)
				zw.Write(body)
				zw.Close()
				wire = zb.Bytes()
			}
			rd := &chunkReader{data: wire, rng: verifsim.NewSplitMix(cs), mode: cs, errAt: c.ErrorAt, withData: c.ErrWithData}
			if !c.Gzip {
				rd.errAt = c.effErrAt(wire)
				rd.slow = time.Duration(c.SlowMs) * time.Millisecond
			}
			if c.Gzip {
				rd.errAt = 0
				if c.ErrorAt > 0 {
					rd.errAt = min(c.ErrorAt, len(wire)-1)
				}
			}
			req := httptest.NewRequest(http.MethodPost, "/_bulk", rd)
			if c.Gzip {
				req.Header.Set("Content-Encoding", "gzip")
			}
			rec := httptest.NewRecorder()
			h.ServeHTTP(rec, req)
			// the request is over: every ticket and count the ingestor took for it must be back (they are never given
			// back later, and MaxInflightBulks such requests make the proxy refuse every bulk)
			if tk, total, infl := ing.VerifIdle(); tk != total || infl != 0 {
				violate("ticket_leak", "delivery %d (status %d): after the request the ingestor holds %d of %d rate-limit tickets and counts %d requests in flight", di, rec.Code, tk, total, infl)
				return
			}
			if !c.SharedIngestor {
				ing.Stop()
			}
			out := &c10Outcome{status: rec.Code, stored: client.docs, calls: client.calls}
			if rec.Code == 200 {
				var resp struct {
					Items []json.RawMessage `json:"items"`
				}
				if err := json.Unmarshal(rec.Body.Bytes(), &resp); err != nil {
					violate("response", "delivery %d: 200 response is not valid JSON: %q", di, rec.Body.String())
					return
				}
				out.items = len(resp.Items)
			}
			res.Fired[fmt.Sprintf("status_%d", rec.Code)]++
			log = append(log, fmt.Sprintf("delivery %d (chunk seed %d): status=%d items=%d stored=%d calls=%d", di, cs, out.status, out.items, len(out.stored), out.calls))
			if client.err != "" {
				violate("payload", "delivery %d: %s", di, client.err)
				return
			}
			// reference
			want, ok, ambiguous, lax := c.expectation(body, now, out.status == 200 && !(c.Gzip && c.ErrorAt > 0))
			if c.Gzip && c.ErrorAt > 0 {
				ok = false
			}
			if lax != "" {
				violate("accepted_lax_json", "a document line that is not valid JSON (shape: %s) did not reject the request: status %d, stored verbatim next to its neighbours", lax, out.status)
			}
			switch {
			case ambiguous:
				res.Probes["line_exactly_at_limit"]++
			case !ok:
				if out.status == 200 || len(out.stored) > 0 {
					violate("accepted_bad_request", "delivery %d: the request must be rejected and store nothing, got status %d with %d documents handed to storage", di, out.status, len(out.stored))
					return
				}
			case c.StoreFails && len(want) > 0:
				if out.status == 200 {
					violate("ack_without_store", "delivery %d: storage failed but the request was answered 200", di)
					return
				}
			default:
				if out.status != 200 {
					violate("rejected_good_request", "delivery %d: status %d (%q) for a body whose %d document lines are all acceptable", di, out.status, strings.TrimSpace(rec.Body.String()), len(want))
					return
				}
				if out.items != len(want) || len(out.stored) != len(want) {
					violate("count", "delivery %d: %d valid object documents in the body, response lists %d items, %d documents handed to storage", di, len(want), out.items, len(out.stored))
					return
				}
				for i := range want {
					if out.stored[i].body != want[i].body {
						violate("not_verbatim", "delivery %d: document %d stored as %q, sent as %q", di, i, clipS(out.stored[i].body), clipS(want[i].body))
						return
					}
					if out.stored[i].mid != want[i].mid {
						violate("time_rule", "delivery %d: document %d %q got id time %d, rule says %d (request time %d, drift %d/%d ms)", di, i, clipS(want[i].body), out.stored[i].mid, want[i].mid, now.UnixMilli(), c.DriftMs, c.FutureMs)
						return
					}
				}
			}
			// identical outcome for every chunking of the same body
			if first == nil {
				first, firstBody = out, body
			} else if !bytes.Equal(body, firstBody) {
				// with clock gaps between the deliveries the time strings inside the body differ (also in
				// length, which moves a cut): each delivery was checked against its own reference above
			} else if first.status != out.status || first.items != out.items || len(first.stored) != len(out.stored) {
				violate("chunking_dependent", "delivery 0 -> status %d, %d items, %d stored; delivery %d of the same body -> status %d, %d items, %d stored", first.status, first.items, len(first.stored), di, out.status, out.items, len(out.stored))
				return
			} else if !c.SharedIngestor { // (with clock gaps the time strings inside the bodies differ by construction)
				for i := range out.stored {
					if out.stored[i].body != first.stored[i].body {
						violate("chunking_dependent", "document %d differs between deliveries of the same body: %q vs %q", i, clipS(first.stored[i].body), clipS(out.stored[i].body))
						return
					}
				}
			}
		}
		if c.Par > 1 && len(res.Violations) == 0 {
			runC10Par(s, c, mp, violate, &log, res)
		}
	})
	res.Steps, res.Switches = s.Steps(), s.Switches()
	res.Schedule = s.RecordedSchedule()
	res.SimMs = max(0, s.SimElapsed().Milliseconds()-c.ClockMs) // without the initial offset of the clock
	// what distinguishes one case from another here is the shape of the body and how it was cut
	shape := fmt.Sprintf("%v|%d|%d|%v|%d|%v|%d|%v|%d|%s", c.NoFinalNL, c.TruncateAt, c.ErrorAt, c.Gzip, c.MaxDocSize, c.StoreFails, c.Par, c.ParFailFirst, s.InterleavingHash(), c.Prelude)
	for _, l := range c.Lines {
		shape += fmt.Sprintf("|%s:%d:%v:%s:%d", l.Kind, len(l.Text), l.CRLF, l.TimeFormat, l.OffsetMs)
	}
	res.Hash = fmt.Sprintf("%016x", verifsim.HashStr(shape))
	res.Trace = log
	logProbes(res)
	switch {
	case len(s.Failures) > 0:
		res.Outcome, res.Infra = "infra", fmt.Sprint(s.Failures)
	case len(res.Violations) > 0:
		res.Outcome = "violation"
	case s.Outcome != "":
		res.Outcome, res.Infra = "infra", "run ended by "+s.Outcome
	default:
		res.Outcome = "ok"
	}
	return res
}

// runC10Par: the concurrent phase. One handler and ingestor serve Par requests at once; every
// request must get exactly the outcome the reference gives for its own body, and every call to the
// storage must carry the documents of exactly one request.
// c10BulkConfig: the bulk configuration of the case as a proxy would run with it, i.e. after the defaulting
// proxyapi.NewIngestor applies to what the flags gave it (zero drifts are legitimate values and must survive it)
func c10BulkConfig(c *C10Case, mp bulk.MappingProvider) bulk.IngestorConfig {
	return proxyapi.VerifIngestorDefaults(proxyapi.IngestorConfig{Bulk: bulk.IngestorConfig{
		MaxInflightBulks: 4, AllowedTimeDrift: time.Duration(c.DriftMs) * time.Millisecond, FutureAllowedTimeDrift: time.Duration(c.FutureMs) * time.Millisecond,
		MappingProvider: mp, MaxTokenSize: 72, DocsZSTDCompressLevel: 1, MetasZSTDCompressLevel: 1, MaxDocumentSize: c.MaxDocSize,
	}}).Bulk
}

func runC10Par(s *verifsim.Sim, c *C10Case, mp bulk.MappingProvider, violate func(string, string, ...any), log *[]string, res *RunResult) {
	client := &captureClient{}
	ing := bulk.NewIngestor(c10BulkConfig(c, mp), client)
	defer ing.Stop()
	h := proxyapi.NewBulkHandler(ing, c.MaxDocSize)
	now := time.Now() // the fake clock does not move while requests only compute
	send := func(i int, mode uint64, yield bool) (int, int, []storedDoc, bool, bool) {
		cc := c.marked(i)
		body := cc.body(now)
		rd := &chunkReader{data: body, rng: verifsim.NewSplitMix(c.Seed ^ uint64(i+1)*0x9e37), mode: mode, errAt: c.effErrAt(body), withData: c.ErrWithData, yield: yield}
		req := httptest.NewRequest(http.MethodPost, "/_bulk", rd)
		if c.ParGzip {
			var zb bytes.Buffer
			zw := gzip.NewWriter(&zb)
			zw.Write(body)
			zw.Close()
			rd.data, rd.errAt = zb.Bytes(), 0
			req.Header.Set("Content-Encoding", "gzip")
		}
		rec := httptest.NewRecorder()
		h.ServeHTTP(rec, req)
		items := 0
		if rec.Code == 200 {
			var resp struct {
				Items []json.RawMessage `json:"items"`
			}
			if err := json.Unmarshal(rec.Body.Bytes(), &resp); err != nil {
				violate("response", "concurrent request %d: 200 response is not valid JSON: %q", i, rec.Body.String())
			}
			items = len(resp.Items)
		}
		want, ok, ambiguous := cc.reference(body, now)
		return rec.Code, items, want, ok, ambiguous
	}
	if c.ParGzip {
		send(200, 0, false)
		client.docs, client.perCall, client.calls = nil, nil, 0
		bad := httptest.NewRequest(http.MethodPost, "/_bulk", &chunkReader{data: []byte(`{"index":{}}` + "\n" + `{"k0":"plain"}` + "\n"), rng: verifsim.NewSplitMix(3), mode: 0})
		bad.Header.Set("Content-Encoding", "gzip")
		brec := httptest.NewRecorder()
		h.ServeHTTP(brec, bad)
		res.Fired["par_not_gzip_prelude"]++
		if brec.Code == 200 || len(client.docs) > 0 {
			violate("accepted_bad_request", "a body announced as gzip that is not gzip must be rejected and store nothing: status %d, %d documents", brec.Code, len(client.docs))
			return
		}
	}
	if c.ParFailFirst {
		client.fail = true
		code, _, want, ok, amb := send(100, 0, false)
		client.fail = false
		res.Fired["par_store_failure"]++
		*log = append(*log, fmt.Sprintf("concurrent phase: request with failing storage -> status %d", code))
		if !amb && ok && len(want) > 0 && code == 200 {
			violate("ack_without_store", "storage failed but the request was answered 200")
			return
		}
	}
	type out struct {
		code, items int
		want        []storedDoc
		ok, amb     bool
	}
	outs := make([]*out, c.Par)
	var tasks []*verifsim.Task
	for i := 0; i < c.Par; i++ {
		i := i
		mode := []uint64{0, 1, 7, 13}[i%4]
		tasks = append(tasks, s.GoOn(nil, func() {
			o := &out{}
			o.code, o.items, o.want, o.ok, o.amb = send(i, mode, true)
			outs[i] = o
		}))
	}
	for _, t := range tasks {
		if r := s.WaitTask(t, nil, 6*time.Hour); r != "done" {
			violate("hang", "a concurrent bulk request did not finish: %s", r)
			return
		}
	}
	res.Fired["par_requests"] += c.Par
	if tk, total, infl := ing.VerifIdle(); tk != total || infl != 0 {
		violate("ticket_leak", "concurrent phase: after all requests the ingestor holds %d of %d rate-limit tickets and counts %d requests in flight", tk, total, infl)
		return
	}
	if client.err != "" {
		violate("payload", "concurrent phase: %s", client.err)
		return
	}
	// attribute storage calls to requests by the marker
	stored := map[int][][]storedDoc{}
	for ci, call := range client.perCall {
		owner := -2
		for _, d := range call {
			var m struct {
				Rq *int `json:"rq"`
			}
			rq := -1
			if json.Unmarshal([]byte(d.body), &m) == nil && m.Rq != nil {
				rq = *m.Rq
			}
			if owner == -2 {
				owner = rq
			} else if owner != rq {
				violate("mixed_requests", "storage call %d carries documents of requests %d and %d: %q", ci, owner, rq, clipS(d.body))
				return
			}
		}
		stored[owner] = append(stored[owner], call)
	}
	for i, o := range outs {
		if o == nil {
			violate("hang", "concurrent request %d has no outcome", i)
			return
		}
		*log = append(*log, fmt.Sprintf("concurrent request %d: status=%d items=%d storage calls=%d", i, o.code, o.items, len(stored[i])))
		got := []storedDoc{}
		for _, call := range stored[i] {
			got = append(got, call...)
		}
		switch {
		case o.amb:
		case !o.ok:
			if o.code == 200 || len(got) > 0 {
				violate("accepted_bad_request", "concurrent request %d must be rejected and store nothing, got status %d with %d documents handed to storage", i, o.code, len(got))
				return
			}
		default:
			if o.code != 200 {
				violate("rejected_good_request", "concurrent request %d: status %d for a body whose %d document lines are all acceptable", i, o.code, len(o.want))
				return
			}
			if o.items != len(o.want) || len(got) != len(o.want) || (len(o.want) > 0 && len(stored[i]) != 1) {
				violate("count", "concurrent request %d: %d valid object documents in its body, response lists %d items, %d documents handed to storage in %d calls", i, len(o.want), o.items, len(got), len(stored[i]))
				return
			}
			for j := range o.want {
				if got[j].body != o.want[j].body {
					violate("not_verbatim", "concurrent request %d: document %d stored as %q, sent as %q", i, j, clipS(got[j].body), clipS(o.want[j].body))
					return
				}
				if got[j].mid != o.want[j].mid {
					violate("time_rule", "concurrent request %d: document %d got id time %d, rule says %d", i, j, got[j].mid, o.want[j].mid)
					return
				}
			}
		}
	}
}

func clipS(s string) string {
	if len(s) > 80 {
		return s[:80] + "..."
	}
	return s
}

// GenC10 builds the case of a seed.
// maxDoc is constant per worker process: the handler pools its line readers and a pooled reader keeps
// the buffer size it was created with (in production the limit is a process-wide flag).
func GenC10(seed uint64, thorough bool, maxDoc int) *C10Case {
	r := verifsim.NewSplitMix(seed).Split("c10")
	c := &C10Case{Property: "C10", Seed: seed}
	c.MaxDocSize = maxDoc
	c.DriftMs = []int64{1000, 60000, 86400000, 0}[r.Intn(4)]
	c.FutureMs = []int64{500, 60000, 86400000, 0}[r.Intn(4)]
	c.ClockMs = int64(r.Intn(100000)) + 200000000 // well after the epoch of the fake clock so that past offsets stay positive
	calendar := r.Bool(0.04)
	if calendar {
		// the request arrives at 2000-03-01 00:30 (+ up to 10 minutes); see the calendar documents below
		c.ClockMs = 60*86400000 + 30*60000 + int64(r.Intn(600000))
		c.DriftMs, c.FutureMs = 86400000, 86400000
	}
	c.Gzip = r.Bool(0.25)
	if rs := verifsim.NewSplitMix(seed ^ 0x510e).Split("c10-slow"); rs.Bool(0.15) {
		c.SlowMs = []int64{300, 1500}[rs.Intn(2)]
	}
	c.StoreFails = r.Bool(0.1)
	n := r.Range(0, 9)
	badness := []float64{0, 0.1, 0.3}[r.Intn(3)]
	if r.Bool(0.03) {
		// a big request: the response (one item per document) outgrows its pre-sized buffer
		n, badness = r.Range(200, 420), 0
	}
	words := []string{"alpha", "Beta", "x", "\\u00e9\\u4e16", "tab\\tq\\\"uote", "ÄÖ", "a_b*c", ""}
	for i := 0; i < n; i++ {
		if r.Bool(0.15) {
			c.Lines = append(c.Lines, C10Line{Kind: "empty"})
		}
		a := C10Line{Kind: "action", Text: []string{`{"index":{}}`, `{"create":{"_index":"x"}}`, `{ "index" : { "_id": "1" } }`}[r.Intn(3)], CRLF: r.Bool(0.2)}
		if r.Bool(badness / 4) {
			a = C10Line{Kind: "badaction", Text: `{"delete":{}}`}
		}
		c.Lines = append(c.Lines, a)
		l := C10Line{Kind: "doc", CRLF: r.Bool(0.2)}
		switch x := r.Float64(); {
		case x < badness/3:
			l.Kind, l.Text = "invalid", []string{`{"k0":"v"`, `{"k0":}`, `{"k0" "v"}`, `{k0:1}`, `[1,2`, `"unterminated`, `nul`, `12x`, `}`, `tru`, ` {"k0":"v"`}[r.Intn(11)]
		case x < badness:
			l.Kind, l.Text = "nonobject", []string{`[1,2,3]`, `"just a string"`, `42`, `null`, `true`}[r.Intn(5)]
		case x < badness*1.5:
			l.Kind = "oversize"
			l.Text = `{"k0":"` + strings.Repeat("z", c.MaxDocSize+r.Range(-12, 40)) + `"}`
		default:
			w := words[r.Intn(len(words))]
			fill := strings.Repeat("p", r.Intn(min(c.MaxDocSize/2, 60)))
			l.Text = fmt.Sprintf(`{"k0":"%s","msg":"%s %s","n":%d,"o":{"a":[1,{"b":null}]}`, w, w, fill, r.Intn(1000))
			if r.Bool(0.7) {
				l.TimeField = []string{"timestamp", "time", "ts"}[r.Intn(3)]
				l.TimeFormat = []string{"es", "rfc3339", "rfc3339nano", "garbage"}[r.Intn(4)]
				offs := []int64{0, -c.DriftMs - 1000, -c.DriftMs, -c.DriftMs + 1000, c.FutureMs - 1000, c.FutureMs, c.FutureMs + 1000, -5, 7, -c.DriftMs * 3}
				l.OffsetMs = offs[r.Intn(len(offs))]
				if calendar && r.Bool(0.5) {
					// days that do not exist (2000 is a leap year: February has 29 days) and one that does: a time that
					// names no instant does not parse, whatever a lenient date arithmetic would make of it
					l.AbsTime = []string{"2000-02-30 00:10:00.000", "2000-02-31 00:05:00.000", "2000-02-30T00:10:00Z", "2000-02-29 23:50:00.000", "2000-02-30 00:10:00",
						// more than nine fractional digits: still 65 ms past the second, not 651
						"2000-03-01 00:20:00.0651402828"}[r.Intn(6)]
				}
				if r.Bool(0.04) {
					l.AbsTime = []string{"2400-01-01T00:00:00Z", "2400-01-01 00:00:00.000", "2262-04-12T00:00:00Z", "9999-12-31T23:59:59.999999999Z", "1600-01-01T00:00:00Z", "0001-01-01 00:00:00.000", "1677-09-21T00:12:43Z"}[r.Intn(7)]
				}
				first := fmt.Sprintf(`,"%s":"@TIME@"`, l.TimeField)
				if r.Bool(0.3) {
					// two time fields naming different instants in different formats: the one that comes first
					// in the order timestamp, time, ts and parses decides, whatever its format and position
					fs := []string{"timestamp", "time", "ts"}
					l.TimeField2 = fs[r.Intn(3)]
					for l.TimeField2 == l.TimeField {
						l.TimeField2 = fs[r.Intn(3)]
					}
					l.TimeFormat2 = []string{"es", "rfc3339", "rfc3339nano", "garbage"}[r.Intn(4)]
					l.OffsetMs2 = offs[r.Intn(len(offs))]
					second := fmt.Sprintf(`,"%s":"@TIME2@"`, l.TimeField2)
					if r.Bool(0.5) {
						first, second = second, first
					}
					first += second
				}
				l.Text += first
			}
			l.Text += "}"
			if r.Bool(0.06) {
				// JSON allows whitespace around the value: still a well-formed object line
				l.Text = []string{" ", "\t", "  "}[r.Intn(3)] + l.Text + []string{"", " ", "\t"}[r.Intn(3)]
			}
			// stay clear of the limit itself: whether a line of exactly the limit is "within" it depends on its
			// line terminator in the reader; lines are either comfortably below or clearly above
			if n := len(l.Text); n >= c.MaxDocSize-50 && n <= c.MaxDocSize+10 {
				l.Text = l.Text[:len(l.Text)-1] + `,"pad":"` + strings.Repeat("q", 70) + `"}`
			}
		}
		if l.Kind == "oversize" && len(l.Text) <= c.MaxDocSize+10 {
			l.Text = `{"k0":"` + strings.Repeat("z", c.MaxDocSize+20) + `"}`
		}
		c.Lines = append(c.Lines, l)
	}
	lax := r.Bool(0.04)
	if lax {
		// one document line of a shape that is not valid JSON but that a lenient decoder takes
		names := make([]string, 0, len(laxShapes))
		for name := range laxShapes {
			names = append(names, name)
		}
		sort.Strings(names)
		var docLines []int
		for i, l := range c.Lines {
			if l.Kind == "doc" {
				docLines = append(docLines, i)
			}
		}
		if len(docLines) > 0 {
			c.Lines[docLines[r.Intn(len(docLines))]] = C10Line{Kind: "laxinvalid", Text: laxShapes[names[r.Intn(len(names))]]}
		} else {
			lax = false
		}
	}
	c.NoFinalNL = r.Bool(0.3)
	if r.Bool(0.12) {
		c.TruncateAt = r.Range(1, 300)
	}
	if r.Bool(0.1) {
		c.ErrorAt = r.Range(1, 300)
		if r.Bool(0.5) {
			c.ErrWithData = true
			if r.Bool(0.6) {
				c.ErrLine = r.Range(1, 12)
			}
		}
	}
	c.ChunkSeeds = []uint64{0, 1, 2 + r.Uint64()%1000, 2 + r.Uint64()%1000}
	if r.Bool(0.35) {
		c.Prelude = []string{"reject_after_valid", "store_fails", "read_error", "ok"}[r.Intn(4)]
	}
	if r.Bool(0.4) {
		c.SharedIngestor = true
		for range c.ChunkSeeds {
			c.GapMs = append(c.GapMs, []int64{0, 1, 1500, 61000, 3600000, 2 * c.DriftMs}[r.Intn(6)])
		}
	}
	if r.Bool(0.3) {
		c.Par = r.Range(2, 4)
		if lax {
			c.Par = 0 // (documents of concurrent requests are told apart by a marker only object documents carry)
		}
		c.ParFailFirst = r.Bool(0.5)
		c.PSync = []float64{0.1, 0.3, 0.6}[r.Intn(3)]
		if rz := verifsim.NewSplitMix(seed ^ 0x671b).Split("c10-pargzip"); c.ErrorAt == 0 && c.TruncateAt == 0 && rz.Bool(0.4) {
			c.ParGzip = true
		}
	}
	return c
}

// Package proxysim runs the real proxy components (bulk.SeqDBClient with the real circuit breaker,
// search.Ingestor, the HTTP bulk handler) over scripted stub stores on the simulated transport.
package proxysim

import (
	"bytes"
	"context"
	"errors"
	"fmt"
	"github.com/ozontech/seq-db/logger"
	"regexp"
	"sort"
	"testing"
	"time"

	"google.golang.org/grpc"
	"google.golang.org/protobuf/types/known/emptypb"

	"github.com/ozontech/seq-db/consts"
	"github.com/ozontech/seq-db/disk"
	"github.com/ozontech/seq-db/mappingprovider"
	"github.com/ozontech/seq-db/network/circuitbreaker"
	pb "github.com/ozontech/seq-db/pkg/storeapi"
	"github.com/ozontech/seq-db/proxy/bulk"
	"github.com/ozontech/seq-db/proxy/stores"
	"github.com/ozontech/seq-db/verifsim"
	"github.com/ozontech/seq-db/verifsim/simrand"
	"github.com/ozontech/seq-db/verifsim/simrandv2"
)

// Outcome of one scripted Bulk call.
type Outcome struct {
	Kind    string `json:"k"`  // ok | err | hang | slow_ok | lost
	DelayMs int    `json:"ms"` // simulated latency before the answer
}

// C09Case is one explicit run.
type C09Case struct {
	Property     string               `json:"property"`
	Seed         uint64               `json:"seed"`
	HotShards    int                  `json:"hot_shards"`
	HotReplicas  int                  `json:"hot_replicas"`
	ColdShards   int                  `json:"cold_shards"`
	ColdReplicas int                  `json:"cold_replicas"`
	TimeoutMs    int                  `json:"breaker_timeout_ms"`
	VolumeThr    int64                `json:"breaker_volume_threshold"`
	ErrPct       int64                `json:"breaker_error_pct"`
	SleepWinMs   int                  `json:"breaker_sleep_window_ms"`
	Script       map[string][]Outcome `json:"script"`  // host -> outcome of its n-th Bulk call; past the end: ok
	Clients      [][]int              `json:"clients"` // per client: sizes of the payloads it stores, one StoreDocuments each
	// request context of the clients' StoreDocuments calls: 0 = none, >0 = deadline after that many
	// simulated ms (the caller gives up while attempts are under way), <0 = cancelled before the call
	CtxMs    int     `json:"ctx_ms,omitempty"`
	// ViaIngestor: the payloads are documents handed to the real bulk.Ingestor (processor, pooled compressor), which
	// calls the client; what a replica accepted is then identified by the documents inside the compressed payload
	ViaIngestor bool    `json:"via_ingestor,omitempty"`
	PSync       float64 `json:"p_sync"`
	Schedule []int   `json:"schedule,omitempty"`
}

type Violation struct {
	Clause string `json:"clause"`
	Detail string `json:"detail"`
}

type RunResult struct {
	Seed       uint64         `json:"seed"`
	Outcome    string         `json:"outcome"`
	Violations []Violation    `json:"violations,omitempty"`
	Infra      string         `json:"infra,omitempty"`
	Steps      int            `json:"steps"`
	Switches   int            `json:"switches"`
	Hash       string         `json:"hash"`
	Schedule   []int          `json:"schedule,omitempty"`
	Fired      map[string]int `json:"fired,omitempty"`
	Probes     map[string]int `json:"probes,omitempty"`
	Trace      []string       `json:"trace,omitempty"`
	SimMs      int64          `json:"sim_ms"`
}

type bulkCall struct {
	host    string
	n       int
	payload []byte // docs+metas+count fingerprint
	kind    string
	ok      bool // returned success to the proxy
}

type stubStore struct {
	r    *c09Runner
	host string
	n    int
}

type c09Runner struct {
	c     *C09Case
	s     *verifsim.Sim
	res   *RunResult
	calls []bulkCall
	log   []string
	start time.Time
	calm  bool // liveness phase: every call succeeds
	ing   *bulk.Ingestor
}

func (r *c09Runner) logf(f string, a ...any) {
	r.log = append(r.log, fmt.Sprintf("t=%d ", time.Since(r.start).Milliseconds())+fmt.Sprintf(f, a...))
}

func (r *c09Runner) violate(clause, f string, a ...any) {
	for _, v := range r.res.Violations {
		if v.Clause == clause {
			return
		}
	}
	r.res.Violations = append(r.res.Violations, Violation{clause, fmt.Sprintf(f, a...)})
	r.logf("VIOLATION %s: %s", clause, fmt.Sprintf(f, a...))
}

var payloadMarker = regexp.MustCompile(`"k0":"pay(\d+)"`)

// fingerprint: identity of a payload as a store sees it. Payloads built by the ingestor are identified by the
// documents they carry (the compressed bytes are the ingestor's business).
func fingerprint(req *pb.BulkRequest) []byte { return fingerprintOf(req, false) }

func fingerprintOf(req *pb.BulkRequest, compressed bool) []byte {
	decompress := func() (raw []byte, err error) {
		defer func() {
			if p := recover(); p != nil {
				err = fmt.Errorf("not a document block: %v", p) // (an empty or foreign payload)
			}
		}()
		return disk.DocBlock(req.Docs).DecompressTo(nil)
	}
	if !compressed {
	} else if raw, err := decompress(); err == nil {
		if ms := payloadMarker.FindAllSubmatch(raw, -1); len(ms) > 0 {
			var b bytes.Buffer
			fmt.Fprintf(&b, "%d|docs", req.Count)
			for _, m := range ms {
				b.WriteByte(' ')
				b.Write(m[1])
			}
			return b.Bytes()
		}
	}
	var b bytes.Buffer
	fmt.Fprintf(&b, "%d|", req.Count)
	b.Write(req.Docs)
	b.WriteByte('|')
	b.Write(req.Metas)
	return b.Bytes()
}

// wait sleeps d on the simulated clock or until ctx is done; returns ctx.Err() in the latter case.
func simWait(ctx context.Context, d time.Duration) error {
	// (decided here, not by a select with two ready cases, whose choice is the runtime's)
	if err := ctx.Err(); err != nil {
		return err
	}
	if d <= 0 {
		return nil
	}
	t := verifsim.BeforeBlock(5)
	tm := time.NewTimer(d)
	var err error
	select {
	case <-tm.C:
	case <-ctx.Done():
		err = ctx.Err()
	}
	tm.Stop()
	verifsim.AfterBlock(t)
	return err
}

func (st *stubStore) Bulk(ctx context.Context, in *pb.BulkRequest, _ ...grpc.CallOption) (*emptypb.Empty, error) {
	r := st.r
	st.n++
	n := st.n
	o := Outcome{Kind: "ok"}
	if sc := r.c.Script[st.host]; n <= len(sc) && !r.calm {
		o = sc[n-1]
	}
	call := bulkCall{host: st.host, n: n, payload: fingerprintOf(in, r.ing != nil), kind: o.Kind}
	r.res.Fired[o.Kind]++
	d := time.Duration(o.DelayMs) * time.Millisecond
	var err error
	switch o.Kind {
	case "ok":
		err = simWait(ctx, d)
	case "slow_ok":
		// answers successfully, but ignores the caller's deadline (the reply arrives late)
		verifsim.Sleep(5, d)
	case "err":
		if err = simWait(ctx, d); err == nil {
			err = errors.New("stub: store error")
		}
	case "lost":
		// the store has the bulk, the reply is lost
		if err = simWait(ctx, d); err == nil {
			err = errors.New("stub: reply lost")
		}
	case "hang":
		<-func() <-chan struct{} {
			t := verifsim.BeforeBlock(5)
			defer verifsim.AfterBlock(t)
			<-ctx.Done()
			c := make(chan struct{})
			close(c)
			return c
		}()
		err = ctx.Err()
	}
	call.ok = err == nil
	r.calls = append(r.calls, call)
	r.logf("%s bulk#%d %s -> ok=%v", st.host, n, o.Kind, call.ok)
	if err != nil {
		return nil, err
	}
	return &emptypb.Empty{}, nil
}

func (st *stubStore) Search(context.Context, *pb.SearchRequest, ...grpc.CallOption) (*pb.SearchResponse, error) {
	return nil, errors.New("not used")
}
func (st *stubStore) StartAsyncSearch(context.Context, *pb.StartAsyncSearchRequest, ...grpc.CallOption) (*pb.StartAsyncSearchResponse, error) {
	return nil, errors.New("not used")
}
func (st *stubStore) FetchAsyncSearchResult(context.Context, *pb.FetchAsyncSearchResultRequest, ...grpc.CallOption) (*pb.FetchAsyncSearchResultResponse, error) {
	return nil, errors.New("not used")
}
func (st *stubStore) Fetch(context.Context, *pb.FetchRequest, ...grpc.CallOption) (pb.StoreApi_FetchClient, error) {
	return nil, errors.New("not used")
}
func (st *stubStore) Status(context.Context, *pb.StatusRequest, ...grpc.CallOption) (*pb.StatusResponse, error) {
	return nil, errors.New("not used")
}

func hostsOf(prefix string, shards, replicas int) *stores.Stores {
	st := &stores.Stores{Shards: [][]string{}, Vers: []string{}}
	for s := 0; s < shards; s++ {
		var hs []string
		for r := 0; r < replicas; r++ {
			hs = append(hs, fmt.Sprintf("%s-%d-%d", prefix, s, r))
		}
		st.Shards = append(st.Shards, hs)
		st.Vers = append(st.Vers, "v")
	}
	return st
}

// RunC09 executes one case in its own bubble.
func RunC09(t *testing.T, c *C09Case) *RunResult {
	logger.ResetSink()
	res := &RunResult{Seed: c.Seed, Fired: map[string]int{}, Probes: map[string]int{}}
	r := &c09Runner{c: c, res: res}
	circuitbreaker.VerifReset()
	simrand.Seed(c.Seed ^ 0x77)
	simrandv2.Seed(c.Seed ^ 0x78)
	s := verifsim.RunBubble(t, verifsim.Config{Seed: c.Seed, PSync: c.PSync, Schedule: c.Schedule, MaxSteps: 300000}, func(s *verifsim.Sim) {
		r.s = s
		r.start = time.Now()
		r.script()
	})
	res.Steps, res.Switches = s.Steps(), s.Switches()
	res.Hash = fmt.Sprintf("%016x", s.InterleavingHash())
	res.Schedule = s.RecordedSchedule()
	res.SimMs = s.SimElapsed().Milliseconds()
	res.Trace = r.log
	if len(res.Trace) > 120 {
		res.Trace = res.Trace[len(res.Trace)-120:]
	}
	logProbes(res)
	switch {
	case len(s.Failures) > 0:
		res.Outcome, res.Infra = "infra", fmt.Sprint(s.Failures)
	case len(res.Violations) > 0:
		res.Outcome = "violation"
	case s.Outcome != "":
		res.Outcome = "violation"
		res.Violations = append(res.Violations, Violation{"hang", "run ended by " + s.Outcome + "\n" + s.DumpTasks()})
	default:
		res.Outcome = "ok"
	}
	return res
}

func (r *c09Runner) script() {
	c := r.c
	hot := hostsOf("hot", c.HotShards, c.HotReplicas)
	cold := hostsOf("cold", c.ColdShards, c.ColdReplicas)
	clients := map[string]pb.StoreApiClient{}
	for _, st := range []*stores.Stores{hot, cold} {
		for _, sh := range st.Shards {
			for _, h := range sh {
				clients[h] = &stubStore{r: r, host: h}
			}
		}
	}
	cfg := circuitbreaker.Config{
		// (7 us / 500.001 us below: deadlines never fall on the same instant as a reply, whose latencies are whole
		// milliseconds; which of two timers of one instant fires first is the runtime's choice, not the scheduler's)
		Timeout:                  time.Duration(c.TimeoutMs)*time.Millisecond + 7*time.Microsecond,
		NumBuckets:               10,
		BucketWidth:              time.Second,
		RequestVolumeThreshold:   c.VolumeThr,
		ErrorThresholdPercentage: c.ErrPct,
		SleepWindow:              time.Duration(c.SleepWinMs) * time.Millisecond,
	}
	client := bulk.NewSeqDBClient(hot, cold, cfg, clients)
	if c.ViaIngestor {
		mp, err := mappingprovider.New("", mappingprovider.WithMapping(c10Mapping))
		if err != nil {
			panic(err)
		}
		r.ing = bulk.NewIngestor(bulk.IngestorConfig{MaxInflightBulks: 16, AllowedTimeDrift: time.Hour, FutureAllowedTimeDrift: time.Hour,
			MappingProvider: mp, MaxTokenSize: 72, DocsZSTDCompressLevel: 1, MetasZSTDCompressLevel: 1, MaxDocumentSize: 1 << 20}, client)
		defer r.ing.Stop()
	}

	payloadNo := 0
	var tasks []*verifsim.Task
	for ci, sizes := range c.Clients {
		ci, sizes := ci, sizes
		tasks = append(tasks, r.s.GoOn(nil, func() {
			for _, sz := range sizes {
				payloadNo++
				r.store(client, ci, payloadNo, sz, hot, cold)
			}
		}))
	}
	for _, t := range tasks {
		if res := r.s.WaitTask(t, nil, 6*time.Hour); res != "done" {
			r.violate("hang", "client did not finish (%s)\n%s", res, r.s.DumpTasks())
			return
		}
	}
	if r.ing != nil {
		if tk, total, infl := r.ing.VerifIdle(); tk != total || infl != 0 {
			r.violate("ticket_leak", "after all clients returned the ingestor holds %d of %d rate-limit tickets and counts %d requests in flight", tk, total, infl)
			return
		}
	}
	// bounded liveness: faults stop, breakers get their sleep window, then a bulk must go through
	r.calm = true
	ok := false
	for try := 0; try < 4 && !ok; try++ {
		r.s.SleepSim(time.Duration(c.SleepWinMs+c.TimeoutMs+50) * time.Millisecond)
		payloadNo++
		ok = r.store(client, 99, payloadNo, 10, hot, cold)
	}
	if !ok {
		r.violate("no_progress", "with every store healthy again and after 4 breaker sleep windows StoreDocuments still fails")
	}
}

// store performs one StoreDocuments and checks the acknowledgement rule. Returns whether it was acknowledged.
func (r *c09Runner) store(client *bulk.SeqDBClient, ci, no, size int, hot, cold *stores.Stores) bool {
	docs := bytes.Repeat([]byte{byte('a' + no%26)}, size+1)
	docs = append(docs, []byte(fmt.Sprintf("#%d", no))...)
	metas := []byte(fmt.Sprintf("meta-%d", no))
	want := fingerprint(&pb.BulkRequest{Count: int64(no), Docs: docs, Metas: metas})
	before := len(r.calls)
	r.logf("c%d StoreDocuments #%d invoke", ci, no)
	ctx, cancel := context.Background(), context.CancelFunc(func() {})
	if !r.calm {
		switch {
		case r.c.CtxMs > 0:
			ctx, cancel = context.WithTimeout(ctx, time.Duration(r.c.CtxMs)*time.Millisecond+500*time.Microsecond+time.Nanosecond)
			r.res.Fired["request_deadline"]++
		case r.c.CtxMs < 0:
			ctx, cancel = context.WithCancel(ctx)
			cancel()
			r.res.Fired["request_cancelled"]++
		}
	}
	var err error
	if r.ing != nil {
		// two documents carrying the payload number; the ingestor compresses them into its pooled buffers
		lines := [][]byte{
			[]byte(fmt.Sprintf(`{"k0":"pay%d","msg":"%s"}`, no, bytes.Repeat([]byte{byte('a' + no%26)}, size%200+1))),
			[]byte(fmt.Sprintf(`{"k0":"pay%d","msg":"second"}`, no)),
		}
		want = []byte(fmt.Sprintf("2|docs %d %d", no, no))
		if (uint64(no)*2654435761+r.c.Seed)%4 == 0 {
			// a line the processor cannot decode after a good one: the bulk must fail as a whole, whatever the pooled
			// compressor still holds from the bulk before
			lines[1] = []byte(`{"k0":"pay` + fmt.Sprint(no) + `","msg":`)
			r.res.Fired["ingestor_bulk_with_bad_line"]++
		}
		i := 0
		_, err = r.ing.ProcessDocuments(ctx, time.Now(), func() ([]byte, error) {
			if i >= len(lines) {
				return nil, nil
			}
			i++
			return lines[i-1], nil
		})
	} else {
		err = client.StoreDocuments(ctx, no, docs, metas)
	}
	cancel()
	r.logf("c%d StoreDocuments #%d -> %v", ci, no, err)
	_ = before
	// calls carrying this payload
	okBy := map[string]bool{}
	callsBy := map[string]int{}
	for _, cl := range r.calls {
		if !bytes.Equal(cl.payload, want) {
			continue
		}
		callsBy[cl.host]++
		if cl.ok {
			okBy[cl.host] = true
		}
	}
	for h, n := range callsBy {
		if n > consts.BulkMaxTries {
			r.violate("retries", "replica %s received payload #%d %d times, more than the %d attempts allowed", h, no, n, consts.BulkMaxTries)
		}
	}
	full := func(st *stores.Stores) (bool, string) {
		if len(st.Shards) == 0 {
			return true, ""
		}
		var why []string
		for si, sh := range st.Shards {
			all := true
			for _, h := range sh {
				if !okBy[h] {
					all = false
					why = append(why, fmt.Sprintf("shard %d: replica %s never returned success for this payload (%d calls)", si, h, callsBy[h]))
				}
			}
			if all {
				return true, ""
			}
		}
		sort.Strings(why)
		return false, fmt.Sprint(why)
	}
	if err == nil {
		if ok, why := full(hot); !ok {
			r.violate("ack_without_full_replica_set", "bulk #%d reported as stored but no hot shard has all replicas holding it: %s", no, why)
		}
		if ok, why := full(cold); !ok {
			r.violate("ack_without_full_replica_set", "bulk #%d reported as stored but no long-term shard has all replicas holding it: %s", no, why)
		}
		return true
	}
	return false
}

// Package simenv wires real seq-db components (store, proxy pieces) onto simulated nodes.
package simenv

import (
	"encoding/binary"
	"context"

	"verif/harness/model"

	"errors"
	"fmt"
	"sort"
	"time"

	"google.golang.org/grpc"

	"github.com/ozontech/seq-db/conf"
	"github.com/ozontech/seq-db/disk"
	"github.com/ozontech/seq-db/frac"
	"github.com/ozontech/seq-db/fracmanager"
	"github.com/ozontech/seq-db/mappingprovider"
	pb "github.com/ozontech/seq-db/pkg/storeapi"
	"github.com/ozontech/seq-db/seq"
	"github.com/ozontech/seq-db/storeapi"
	"github.com/ozontech/seq-db/verifsim"
	"github.com/ozontech/seq-db/verifsim/simos"
	"github.com/ozontech/seq-db/verifsim/simrand"
	"github.com/ozontech/seq-db/verifsim/simrandv2"
)

// Knobs are the per-run tuning values (swarm).
type Knobs struct {
	FracSize              uint64 `json:"frac_size"`
	TotalSize             uint64 `json:"total_size"`
	CacheSize             uint64 `json:"cache_size"`
	SortCacheSize         uint64 `json:"sort_cache_size,omitempty"`
	MaintenanceDelayMs    int    `json:"maintenance_delay_ms"`
	CacheCleanupDelayMs   int    `json:"cache_cleanup_delay_ms"`
	CacheGCDelayMs        int    `json:"cache_gc_delay_ms"`
	IndexWorkers          int    `json:"index_workers"`
	FetchWorkers          int    `json:"fetch_workers"`
	ReaderWorkers         int    `json:"reader_workers"`
	SearchWorkers         int    `json:"search_workers"`
	FractionsPerIteration int    `json:"fractions_per_iteration"`
	SkipSortDocs          bool   `json:"skip_sort_docs,omitempty"`
	KeepMetaFile          bool   `json:"keep_meta_file,omitempty"`
	ZstdLevel             int    `json:"zstd_level"`
	DocBlockSize          int    `json:"doc_block_size"`
	MaxFetchSizeBytes     int    `json:"max_fetch_size_bytes"`
	SyncLatencyUs         int    `json:"sync_latency_us"`
	FsyncCommitsJournal   bool   `json:"fsync_commits_journal,omitempty"`
	PSync                 float64 `json:"p_sync"`
	PStmt                 float64 `json:"p_stmt"`
	StepCostNs            int    `json:"step_cost_ns"`
	AsyncParallelism      int    `json:"async_parallelism,omitempty"`
	AggLimits             bool   `json:"agg_limits,omitempty"` // aggregation limits as shipped (flags' defaults) instead of "no limits"
}

// DefaultKnobs gives a plain configuration.
func DefaultKnobs() Knobs {
	return Knobs{
		FracSize: 1 << 30, TotalSize: 1 << 40, CacheSize: 64 << 20,
		MaintenanceDelayMs: 1000, CacheCleanupDelayMs: 1000, CacheGCDelayMs: 1000,
		IndexWorkers: 2, FetchWorkers: 2, ReaderWorkers: 2, SearchWorkers: 4, FractionsPerIteration: 2,
		ZstdLevel: 1, DocBlockSize: 4 << 10, MaxFetchSizeBytes: 4 << 20, PSync: 0.1,
	}
}

// ApplyGlobals sets seq-db's package-level configuration from the knobs (same for all nodes).
func ApplyGlobals(k Knobs, seed uint64) {
	conf.IndexWorkers = max(1, k.IndexWorkers)
	conf.FetchWorkers = max(1, k.FetchWorkers)
	conf.ReaderWorkers = max(1, k.ReaderWorkers)
	conf.SkipFsync = false
	conf.UseSeqQLByDefault = true
	if k.MaxFetchSizeBytes > 0 {
		conf.MaxFetchSizeBytes = k.MaxFetchSizeBytes
	}
	simrand.Seed(seed ^ 0x1111)
	simrandv2.Seed(seed ^ 0x2222)
}

// Mapping used by all simulated stores and proxies: keyword fields only.
var Mapping = seq.Mapping{
	"k0":  seq.NewSingleType(seq.TokenizerTypeKeyword, "", 0),
	"k1":  seq.NewSingleType(seq.TokenizerTypeKeyword, "", 0),
	"k2":  seq.NewSingleType(seq.TokenizerTypeKeyword, "", 0),
	"k3":  seq.NewSingleType(seq.TokenizerTypeKeyword, "", 0),
	"svc": seq.NewSingleType(seq.TokenizerTypeKeyword, "", 0),
	"num": seq.NewSingleType(seq.TokenizerTypeKeyword, "", 0),
	"u":   seq.NewSingleType(seq.TokenizerTypeKeyword, "", 0),
	"big": seq.NewSingleType(seq.TokenizerTypeKeyword, "", 0),
	// fields of nested elements (the store only needs them to parse queries)
	"n.a": seq.NewSingleType(seq.TokenizerTypeKeyword, "", 0),
	"n.b": seq.NewSingleType(seq.TokenizerTypeKeyword, "", 0),
}

// Store is one seq-db store process on a simulated node.
type Store struct {
	Sim   *verifsim.Sim
	World *simos.World
	Node  *verifsim.Node
	Knobs Knobs
	Mode  string

	FM  *fracmanager.FracManager
	API *storeapi.GrpcV1

	Loaded  bool
	BootErr error
	startCtx context.Context // non-nil: the context of the next Load
}

// NewStore registers node + disk. dir is e.g. "/sim/s0".
func NewStore(s *verifsim.Sim, w *simos.World, name string, k Knobs, mode string) *Store {
	dir := simos.Root + name
	w.AddDisk(dir)
	n := s.NewNode(name, dir)
	if mode == "" {
		mode = storeapi.StoreModeHot
	}
	return &Store{Sim: s, World: w, Node: n, Knobs: k, Mode: mode}
}

func (st *Store) fmConfig() *fracmanager.Config {
	k := st.Knobs
	return &fracmanager.Config{
		DataDir:           st.Node.Dir,
		FracSize:          k.FracSize,
		TotalSize:         k.TotalSize,
		CacheSize:         k.CacheSize,
		SortCacheSize:     k.SortCacheSize,
		MaintenanceDelay:  time.Duration(k.MaintenanceDelayMs) * time.Millisecond,
		CacheCleanupDelay: time.Duration(k.CacheCleanupDelayMs) * time.Millisecond,
		CacheGCDelay:      time.Duration(k.CacheGCDelayMs) * time.Millisecond,
		SealParams: frac.SealParams{
			IDsZstdLevel: k.ZstdLevel, LIDsZstdLevel: k.ZstdLevel, TokenListZstdLevel: k.ZstdLevel,
			DocsPositionsZstdLevel: k.ZstdLevel, TokenTableZstdLevel: k.ZstdLevel,
			DocBlocksZstdLevel: k.ZstdLevel, DocBlockSize: k.DocBlockSize,
		},
		Fraction: frac.Config{
			Search:       frac.SearchConfig{AggLimits: st.aggLimits()},
			SkipSortDocs: k.SkipSortDocs,
			KeepMetaFile: k.KeepMetaFile,
		},
	}
}

// aggLimits: zero values switch the limits (and the per-source counting they need) off; the
// shipped defaults are cmd/seq-db/flags.go's. The simulated corpora never reach them.
func (st *Store) aggLimits() frac.AggLimits {
	if !st.Knobs.AggLimits {
		return frac.AggLimits{}
	}
	return frac.AggLimits{MaxFieldTokens: 1000000, MaxGroupTokens: 2000, MaxTIDsPerFraction: 100000}
}

// Start boots a new incarnation: NewFracManager -> Load -> Start -> NewGrpcV1, executed on a
// task of the node. Returns "loaded", "dead" (the process died while booting) or "timeout".
// pollCtx is a start-up context that gets cancelled after its Done channel was asked for n times
// (the replay loop polls it once per block): an operator's SIGTERM arriving in the middle of start-up.
type pollCtx struct {
	n, seen int
	ch      chan struct{}
	closed  bool
}

func (c *pollCtx) Deadline() (time.Time, bool) { return time.Time{}, false }
func (c *pollCtx) Value(any) any               { return nil }
func (c *pollCtx) Done() <-chan struct{} {
	c.seen++
	if c.seen >= c.n && !c.closed {
		c.closed = true
		close(c.ch)
	}
	return c.ch
}
func (c *pollCtx) Err() error {
	if c.closed {
		return context.Canceled
	}
	return nil
}

// StartCancelled boots like Start, but the start-up context is cancelled at its n-th poll. Returns
// "loaded" if start-up finished before that, otherwise what Start returns for a failed boot.
func (st *Store) StartCancelled(timeout time.Duration, polls int) string {
	st.startCtx = &pollCtx{n: max(1, polls), ch: make(chan struct{})}
	defer func() { st.startCtx = nil }()
	return st.Start(timeout)
}

func (st *Store) Start(timeout time.Duration) string {
	st.Loaded = false
	st.FM, st.API, st.BootErr = nil, nil, nil
	inc := st.Node.Boot()
	// A process start takes time. Without this the simulated clock may not have moved since the
	// previous incarnation booted (computation is free in simulated time), and seq-db derives
	// fraction names (ULID time + time-seeded entropy) from the clock: two incarnations would
	// generate the same fraction name, which cannot happen on a real clock.
	st.Sim.SleepSim(time.Duration(20+(inc*13)%40) * time.Millisecond)
	if err := simos.MkdirAll(st.Node.Dir, 0o777); err != nil {
		panic(err)
	}
	t := st.Sim.GoOn(st.Node, func() {
		fm := fracmanager.NewFracManager(st.fmConfig())
		var ctx context.Context = context.Background()
		if st.startCtx != nil {
			ctx = st.startCtx
		}
		if err := fm.Load(ctx); err != nil {
			st.BootErr = err
			verifsim.ProcessExit("load error: " + err.Error())
			return
		}
		fm.Start()
		mp, err := mappingprovider.New("", mappingprovider.WithMapping(Mapping))
		if err != nil {
			panic(err)
		}
		api := storeapi.NewGrpcV1(storeapi.APIConfig{
			StoreMode: st.Mode,
			Bulk:      storeapi.BulkConfig{RequestsLimit: 1000},
			Search: storeapi.SearchConfig{
				WorkersCount:          max(1, st.Knobs.SearchWorkers),
				FractionsPerIteration: max(1, st.Knobs.FractionsPerIteration),
				RequestsLimit:         1000,
				Async: fracmanager.AsyncSearcherConfig{
					DataDir:     st.Node.Dir + "/async_searches",
					Parallelism: max(1, st.Knobs.AsyncParallelism),
				},
			},
		}, fm, mp)
		st.FM, st.API = fm, api
		st.Loaded = true
	})
	r := st.Sim.WaitTask(t, st.Node, timeout)
	switch {
	case r == "done" && st.Loaded:
		return "loaded"
	case r == "timeout":
		return "timeout"
	default:
		return "dead"
	}
}

// Call runs f on a fresh task of the store's current incarnation and waits for it.
// Returns "done", "dead" or "timeout".
func (st *Store) Call(timeout time.Duration, f func()) string {
	if !st.Node.Alive() {
		return "dead"
	}
	completed := false
	t := st.Sim.GoOn(st.Node, func() {
		f()
		completed = true
	})
	r := st.Sim.WaitTask(t, st.Node, timeout)
	if r == "done" && !completed {
		return "dead" // the task was torn down (crash, fatal, panic) before f returned
	}
	return r
}

// StopGraceful performs WaitIdle + Stop (seals on exit when large enough) and ends the incarnation.
func (st *Store) StopGraceful(timeout time.Duration) string {
	r := st.Call(timeout, func() {
		st.FM.WaitIdle()
		st.FM.Stop()
	})
	st.Node.Kill("stopped", true)
	st.Loaded = false
	return r
}

// KillProcess ends the incarnation without any disk effect (kill -9: the kernel keeps what was written).
func (st *Store) KillProcess() {
	st.Node.Kill("killed", true)
	st.Loaded = false
}

// PowerLoss ends the incarnation and replaces the disk by a post-power-loss image.
func (st *Store) PowerLoss(seed uint64, mode string) {
	st.World.PowerLoss(st.Node, seed, mode)
	st.Node.Kill("power loss", true)
	st.Loaded = false
}

// ---- documents and bulks -----------------------------------------------------------------------

// BuildBulk encodes documents the way proxy/bulk does: `_all_` token first, `_exists_` per field.
func BuildBulk(docs []*model.Doc) (docsBlock, metasBlock []byte) {
	dp := frac.NewDocProvider()
	for _, d := range docs {
		toks := make([]seq.Token, 0, 2*len(d.Toks)+1)
		toks = append(toks, seq.Token{Field: []byte(seq.TokenAll), Val: []byte{}})
		for _, t := range d.Toks {
			toks = append(toks, seq.Token{Field: []byte(t.F), Val: []byte(t.V)})
			toks = append(toks, seq.Token{Field: []byte(seq.TokenExists), Val: []byte(t.F)})
		}
		id := seq.ID{MID: seq.MID(d.MID), RID: seq.RID(d.RID)}
		dp.Append(d.Body(), nil, id, toks)
		// nested elements: one zero-sized meta per element under the parent's ID, own _all_ token,
		// the element's tokens, then the parent's tokens (as proxy/bulk/indexer.go emits them)
		for _, n := range d.Nested {
			md := frac.MetaData{ID: id, Size: 0}
			md.Tokens = append(md.Tokens, frac.MetaToken{Key: []byte(seq.TokenAll), Value: []byte{}})
			for _, t := range n {
				md.Tokens = append(md.Tokens, frac.MetaToken{Key: []byte(t.F), Value: []byte(t.V)})
				md.Tokens = append(md.Tokens, frac.MetaToken{Key: []byte(seq.TokenExists), Value: []byte(t.F)})
			}
			for _, t := range toks[1:] {
				md.Tokens = append(md.Tokens, frac.MetaToken{Key: t.Field, Value: t.Val})
			}
			buf := md.MarshalBinaryTo(make([]byte, 4))
			binary.LittleEndian.PutUint32(buf, uint32(len(buf)-4))
			dp.Metas = append(dp.Metas, buf...)
		}
	}
	db, mb := dp.Provide()
	return append([]byte(nil), db...), append([]byte(nil), mb...)
}

// Bulk sends a bulk to the store API on a node task. ack==true iff the handler returned nil.
func (st *Store) Bulk(timeout time.Duration, docs []*model.Doc) (ack bool, status string, err error) {
	db, mb := BuildBulk(docs)
	req := &pb.BulkRequest{Count: int64(len(docs)), Docs: db, Metas: mb}
	var rerr error
	returned := false
	api := st.API
	status = st.Call(timeout, func() {
		ctx, cancel := context.WithTimeout(context.Background(), 30*time.Second)
		defer cancel()
		_, rerr = api.Bulk(ctx, req)
		returned = true
	})
	if status == "done" && !returned {
		status = "dead" // the handler task was torn down by a crash
	}
	if status == "done" {
		return rerr == nil, status, rerr
	}
	return false, status, errors.New("bulk " + status)
}

// SearchReq is a store-level search.
type SearchReq struct {
	Query     string        `json:"q"`
	From      uint64        `json:"from"`
	To        uint64        `json:"to"`
	Size      int           `json:"size"`
	Offset    int           `json:"offset,omitempty"`
	Desc      bool          `json:"desc"`
	WithTotal bool          `json:"with_total,omitempty"`
	Interval  uint64        `json:"interval,omitempty"`
	Aggs      []AggReq      `json:"aggs,omitempty"`
}

type AggReq struct {
	Field     string    `json:"field,omitempty"`
	GroupBy   string    `json:"group_by,omitempty"`
	Func      string    `json:"func"` // count sum min max avg quantile unique
	Quantiles []float64 `json:"quantiles,omitempty"`
	Interval  int64     `json:"interval,omitempty"`
}

func (a AggReq) proto() *pb.AggQuery {
	f := map[string]pb.AggFunc{
		"count": pb.AggFunc_AGG_FUNC_COUNT, "sum": pb.AggFunc_AGG_FUNC_SUM, "min": pb.AggFunc_AGG_FUNC_MIN,
		"max": pb.AggFunc_AGG_FUNC_MAX, "avg": pb.AggFunc_AGG_FUNC_AVG, "quantile": pb.AggFunc_AGG_FUNC_QUANTILE,
		"unique": pb.AggFunc_AGG_FUNC_UNIQUE,
	}[a.Func]
	return &pb.AggQuery{Field: a.Field, GroupBy: a.GroupBy, Func: f, Quantiles: a.Quantiles, Interval: a.Interval}
}

func (r SearchReq) Proto() *pb.SearchRequest {
	order := pb.Order_ORDER_DESC
	if !r.Desc {
		order = pb.Order_ORDER_ASC
	}
	req := &pb.SearchRequest{
		Query: r.Query, From: int64(r.From), To: int64(r.To), Size: int64(r.Size), Offset: int64(r.Offset),
		Interval: int64(r.Interval), WithTotal: r.WithTotal, Order: order,
	}
	for _, a := range r.Aggs {
		req.Aggs = append(req.Aggs, a.proto())
	}
	return req
}

// Hit is one returned ID with its fraction hint.
type Hit struct {
	ID   seq.ID
	Hint string
}

// SearchRes is the decoded store response.
type SearchRes struct {
	Hits  []Hit
	Total uint64
	Hist  map[uint64]uint64
	Aggs  []*pb.SearchResponse_Agg
	Code  pb.SearchErrorCode
}

func DecodeSearch(resp *pb.SearchResponse) *SearchRes {
	res := &SearchRes{Total: resp.Total, Hist: resp.Histogram, Aggs: resp.Aggs, Code: resp.Code}
	for _, h := range resp.IdSources {
		res.Hits = append(res.Hits, Hit{ID: seq.ID{MID: seq.MID(h.Id.Mid), RID: seq.RID(h.Id.Rid)}, Hint: h.Hint})
	}
	return res
}

// Search runs a search on a node task.
func (st *Store) Search(timeout time.Duration, r SearchReq) (*SearchRes, string, error) {
	var resp *pb.SearchResponse
	var rerr error
	api := st.API
	returned := false
	status := st.Call(timeout, func() {
		resp, rerr = api.Search(context.Background(), r.Proto())
		returned = true
	})
	if status == "done" && !returned {
		status = "dead"
	}
	if status != "done" {
		return nil, status, errors.New("search " + status)
	}
	if rerr != nil {
		return nil, status, rerr
	}
	return DecodeSearch(resp), status, nil
}

type fetchStream struct {
	grpc.ServerStream
	ctx context.Context
	out [][]byte
}

func (f *fetchStream) Send(m *pb.BinaryData) error {
	f.out = append(f.out, append([]byte(nil), m.Data...))
	return nil
}
func (f *fetchStream) Context() context.Context { return f.ctx }

// Fetched is one fetch result entry.
type Fetched struct {
	ID   seq.ID
	Body []byte // nil = not found
}

// DecodeFetched unpacks one streamed block.
func DecodeFetched(b []byte) (Fetched, error) {
	blk := disk.DocBlock(b)
	if len(b) < disk.DocBlockHeaderLen {
		return Fetched{}, fmt.Errorf("short fetch block: %d bytes", len(b))
	}
	id := seq.ID{MID: seq.MID(blk.GetExt1()), RID: seq.RID(blk.GetExt2())}
	body, err := blk.DecompressTo(nil)
	if err != nil {
		return Fetched{}, err
	}
	if len(body) == 0 {
		body = nil
	}
	return Fetched{ID: id, Body: body}, nil
}

// Fetch fetches documents by ID (hints optional) on a node task.
func (st *Store) Fetch(timeout time.Duration, hits []Hit, useHints bool) ([]Fetched, string, error) {
	req := &pb.FetchRequest{}
	for _, h := range hits {
		if useHints {
			req.IdsWithHints = append(req.IdsWithHints, &pb.IdWithHint{Id: h.ID.String(), Hint: h.Hint})
		} else {
			req.Ids = append(req.Ids, h.ID.String())
		}
	}
	if len(hits) == 0 {
		return nil, "done", nil
	}
	fs := &fetchStream{ctx: context.Background()}
	var rerr error
	api := st.API
	returned := false
	status := st.Call(timeout, func() {
		rerr = api.Fetch(req, fs)
		returned = true
	})
	if status == "done" && !returned {
		status = "dead"
	}
	if status != "done" {
		return nil, status, errors.New("fetch " + status)
	}
	if rerr != nil {
		return nil, status, rerr
	}
	out := make([]Fetched, 0, len(fs.out))
	for _, b := range fs.out {
		f, err := DecodeFetched(b)
		if err != nil {
			return nil, status, err
		}
		out = append(out, f)
	}
	return out, status, nil
}

// WaitIdle waits until every fraction has indexed everything that was appended to it (writers idle).
func (st *Store) WaitIdle(timeout time.Duration) string {
	fm := st.FM
	return st.Call(timeout, func() { fm.VerifWaitAllIndexed() })
}

// FracInfo summarises one fraction for state fingerprints and oracles.
type FracInfo struct {
	Name      string
	Docs      uint32
	From, To  uint64
	Sealed    bool
	CreatedMs uint64
	Size      uint64
}

// Fracs lists the store's fractions in list order.
func (st *Store) Fracs() []FracInfo {
	var out []FracInfo
	// never walk the objects of a dead incarnation: its tasks were torn down wherever they stood, possibly
	// inside a critical section, and the lock would never be released
	if st.FM == nil || !st.Node.Alive() {
		return nil
	}
	// on a task of the node: if the node dies while the listing walks its locks, the caller is released
	fm := st.FM
	done := false
	st.Call(10*time.Minute, func() {
		for _, f := range fm.GetAllFracs() {
			i := f.Info()
			out = append(out, FracInfo{Name: i.Name(), Docs: i.DocsTotal, From: uint64(i.From), To: uint64(i.To), Sealed: i.SealingTime != 0, CreatedMs: i.CreationTime, Size: i.FullSize()})
		}
		done = true
	})
	if !done {
		return nil
	}
	return out
}

// SortedFileList returns the base names of a node's files (volatile namespace).
func (st *Store) SortedFileList() []string {
	var out []string
	for p, sz := range st.World.List(st.Node.Dir) {
		out = append(out, fmt.Sprintf("%s:%d", p[len(st.Node.Dir)+1:], sz))
	}
	sort.Strings(out)
	return out
}

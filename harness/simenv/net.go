package simenv

import (
	"os"
	"context"
	"io"
	"time"

	"google.golang.org/grpc"
	"google.golang.org/grpc/codes"
	"google.golang.org/grpc/status"
	"google.golang.org/protobuf/types/known/emptypb"

	pb "github.com/ozontech/seq-db/pkg/storeapi"
	"github.com/ozontech/seq-db/verifsim"
)

// Net is the simulated proxy<->store transport. Every decision about a call is a function of
// (seed, from, to, method, per-link call number) - not of draw order - so that map iteration order
// in the caller cannot shift later decisions.
type Net struct {
	Seed       uint64
	MaxLatency time.Duration
	// Faults per link and method, keyed "to/method/n" (n = per-link call number, 1-based):
	// drop_request | drop_reply | break_stream:k
	Faults map[string]string
	// Down links (partition): "to" -> true
	Partitioned map[string]bool
	Stats       map[string]int
	Log         []string
	calls       map[string]int
}

func NewNet(seed uint64, maxLatency time.Duration) *Net {
	return &Net{Seed: seed, MaxLatency: maxLatency, Faults: map[string]string{}, Partitioned: map[string]bool{}, Stats: map[string]int{}, calls: map[string]int{}}
}

// NetClient implements storeapi.StoreApiClient towards one store.
type NetClient struct {
	Net  *Net
	From string
	To   *Store
	// InProcess: the store is called the way the single (proxy + store in one process) mode does it: no
	// transport in between, the caller's context goes straight into the handler and nothing on the way looks at
	// it, so a handler that is entered with a finished context decides itself what to answer.
	InProcess bool
}

func (n *Net) Client(from string, to *Store) *NetClient { return &NetClient{Net: n, From: from, To: to} }

func (c *NetClient) next(method string) (callNo int, lat1, lat2 time.Duration, fault string) {
	key := c.From + ">" + c.To.Node.Name + "/" + method
	c.Net.calls[key]++
	callNo = c.Net.calls[key]
	h := verifsim.Hash64(c.Net.Seed, verifsim.HashStr(key), uint64(callNo))
	if c.Net.MaxLatency > 0 {
		lat1 = time.Duration(h % uint64(c.Net.MaxLatency))
		lat2 = time.Duration((h >> 20) % uint64(c.Net.MaxLatency))
	}
	if debugNet {
		println("NET", key, callNo, int64(lat1), int64(lat2), int64(verifsim.Now().UnixNano()))
	}
	fault = c.Net.Faults[c.To.Node.Name+"/"+method+"/"+itoa(callNo)]
	c.Net.Stats["call_"+method]++
	return
}

var debugNet = os.Getenv("VERIF_DEBUG_NET") != ""

func itoa(n int) string {
	if n == 0 {
		return "0"
	}
	var b []byte
	for n > 0 {
		b = append([]byte{byte('0' + n%10)}, b...)
		n /= 10
	}
	return string(b)
}

func netSleep(ctx context.Context, d time.Duration) error {
	// (a finished context is seen here, not through a select with two ready cases, whose choice is the runtime's)
	if d <= 0 || ctx.Err() != nil {
		return ctx.Err()
	}
	t := verifsim.BeforeBlock(6)
	tm := time.NewTimer(d)
	var err error
	select {
	case <-tm.C:
	case <-ctx.Done():
		err = ctx.Err()
	}
	tm.Stop()
	verifsim.AfterBlock(t)
	return err
}

var errUnavailable = status.Error(codes.Unavailable, "simnet: store unavailable")

// invoke runs handler on a task of the target node and returns when it finished, the node died or
// ctx was cancelled.
func (c *NetClient) invoke(ctx context.Context, method string, handler func(ctx context.Context)) error {
	if c.InProcess {
		c.next(method)
		if !c.To.Loaded || !c.To.Node.Alive() {
			return errUnavailable
		}
		done := false
		task := c.To.Sim.GoOn(c.To.Node, func() {
			handler(ctx)
			done = true
		})
		me := verifsim.BeforeBlock(6)
		select {
		case <-task.DoneCh:
		case <-c.To.Node.DeadCh():
		}
		verifsim.AfterBlock(me)
		if !done {
			c.Net.Stats["died_in_call"]++
			return errUnavailable
		}
		c.Net.Stats["in_process_call"]++
		return nil
	}
	_, lat1, lat2, fault := c.next(method)
	if c.Net.Partitioned[c.To.Node.Name] || !c.To.Loaded || !c.To.Node.Alive() {
		c.Net.Stats["unavailable"]++
		if err := netSleep(ctx, lat1); err != nil {
			return err
		}
		return errUnavailable
	}
	if err := netSleep(ctx, lat1); err != nil {
		return err
	}
	if fault == "drop_request" {
		c.Net.Stats["fired_drop_request"]++
		if err := netSleep(ctx, lat2+50*time.Millisecond); err != nil {
			return err
		}
		return errUnavailable
	}
	done := false
	task := c.To.Sim.GoOn(c.To.Node, func() {
		handler(ctx)
		done = true
	})
	me := verifsim.BeforeBlock(6)
	var err error
	select {
	case <-task.DoneCh:
	case <-c.To.Node.DeadCh():
	case <-ctx.Done():
		err = ctx.Err()
	}
	verifsim.AfterBlock(me)
	if err != nil {
		return err
	}
	if !done {
		c.Net.Stats["died_in_call"]++
		return errUnavailable
	}
	if fault == "drop_reply" {
		c.Net.Stats["fired_drop_reply"]++
		if err := netSleep(ctx, lat2+50*time.Millisecond); err != nil {
			return err
		}
		return errUnavailable
	}
	return netSleep(ctx, lat2)
}

func (c *NetClient) Bulk(ctx context.Context, in *pb.BulkRequest, _ ...grpc.CallOption) (*emptypb.Empty, error) {
	req := in.CloneVT() // nothing is shared across the wire
	var herr error
	api := c.To.API
	if err := c.invoke(ctx, "Bulk", func(ctx context.Context) { _, herr = api.Bulk(ctx, req) }); err != nil {
		return nil, err
	}
	if herr != nil {
		return nil, herr
	}
	return &emptypb.Empty{}, nil
}

func (c *NetClient) Search(ctx context.Context, in *pb.SearchRequest, _ ...grpc.CallOption) (*pb.SearchResponse, error) {
	req := in.CloneVT()
	var resp *pb.SearchResponse
	var herr error
	api := c.To.API
	if err := c.invoke(ctx, "Search", func(ctx context.Context) { resp, herr = api.Search(ctx, req) }); err != nil {
		return nil, err
	}
	if herr != nil {
		return nil, herr
	}
	return resp.CloneVT(), nil
}

type netFetchStream struct {
	grpc.ClientStream
	buf     []*pb.BinaryData
	pos     int
	breakAt int // -1 = never
}

func (s *netFetchStream) Recv() (*pb.BinaryData, error) {
	if s.breakAt >= 0 && s.pos >= s.breakAt {
		return nil, status.Error(codes.Unavailable, "simnet: stream broken")
	}
	if s.pos >= len(s.buf) {
		return nil, io.EOF
	}
	m := s.buf[s.pos]
	s.pos++
	return m, nil
}

func (c *NetClient) Fetch(ctx context.Context, in *pb.FetchRequest, _ ...grpc.CallOption) (pb.StoreApi_FetchClient, error) {
	req := in.CloneVT()
	fs := &fetchStream{ctx: ctx}
	var herr error
	api := c.To.API
	if err := c.invoke(ctx, "Fetch", func(ctx context.Context) {
		fs.ctx = ctx
		herr = api.Fetch(req, fs)
	}); err != nil {
		return nil, err
	}
	if herr != nil {
		return nil, herr
	}
	out := &netFetchStream{breakAt: -1}
	for _, b := range fs.out {
		out.buf = append(out.buf, &pb.BinaryData{Data: b})
	}
	return out, nil
}

func (c *NetClient) StartAsyncSearch(ctx context.Context, in *pb.StartAsyncSearchRequest, _ ...grpc.CallOption) (*pb.StartAsyncSearchResponse, error) {
	req := in.CloneVT()
	var resp *pb.StartAsyncSearchResponse
	var herr error
	api := c.To.API
	if err := c.invoke(ctx, "StartAsyncSearch", func(ctx context.Context) { resp, herr = api.StartAsyncSearch(ctx, req) }); err != nil {
		return nil, err
	}
	return resp, herr
}

func (c *NetClient) FetchAsyncSearchResult(ctx context.Context, in *pb.FetchAsyncSearchResultRequest, _ ...grpc.CallOption) (*pb.FetchAsyncSearchResultResponse, error) {
	req := in.CloneVT()
	var resp *pb.FetchAsyncSearchResultResponse
	var herr error
	api := c.To.API
	if err := c.invoke(ctx, "FetchAsyncSearchResult", func(ctx context.Context) { resp, herr = api.FetchAsyncSearchResult(ctx, req) }); err != nil {
		return nil, err
	}
	return resp, herr
}

func (c *NetClient) Status(ctx context.Context, in *pb.StatusRequest, _ ...grpc.CallOption) (*pb.StatusResponse, error) {
	var resp *pb.StatusResponse
	var herr error
	api := c.To.API
	if err := c.invoke(ctx, "Status", func(ctx context.Context) { resp, herr = api.Status(ctx, in) }); err != nil {
		return nil, err
	}
	return resp, herr
}

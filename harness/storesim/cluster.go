package storesim

import (
	"context"
	"fmt"
	"github.com/google/uuid"
	"io"
	"math"
	"os"
	"sort"
	"strings"
	"testing"
	"time"

	"verif/harness/model"
	"verif/harness/simenv"

	"github.com/ozontech/seq-db/logger"
	"github.com/ozontech/seq-db/network/circuitbreaker"
	pb "github.com/ozontech/seq-db/pkg/storeapi"
	"github.com/ozontech/seq-db/proxy/bulk"
	"github.com/ozontech/seq-db/proxy/search"
	"github.com/ozontech/seq-db/proxy/stores"
	"github.com/ozontech/seq-db/querytracer"
	"github.com/ozontech/seq-db/seq"
	"github.com/ozontech/seq-db/verifsim"
	"github.com/ozontech/seq-db/verifsim/simos"
)

// ClusterCase: real proxy client/search ingestor over real stores on the simulated transport.
type ClusterCase struct {
	InProcess    bool         `json:"in_process,omitempty"` // stores are called without a transport (single mode)
	Property     string       `json:"property"`
	Seed         uint64       `json:"seed"`
	Knobs        simenv.Knobs `json:"knobs"`
	HotShards    int          `json:"hot_shards"`
	HotReplicas  int          `json:"hot_replicas"`
	MaxLatencyMs int          `json:"max_latency_ms"`
	Steps        []Step       `json:"steps"` // par (bulks through the proxy client) | sleep | seal | restart(Group = store index) | validate
	Battery      []*Search    `json:"battery"`
	PageSizes    []int        `json:"page_sizes"`
	Schedule     []int        `json:"schedule,omitempty"`
	// faulty-cluster profiles (clusterf.go): "" = the fault-free layout check of C05/C06
	Profile      string            `json:"profile,omitempty"`
	ColdShards   int               `json:"cold_shards,omitempty"`
	ColdReplicas int               `json:"cold_replicas,omitempty"`
	HotMode      string            `json:"hot_mode,omitempty"`       // store mode of the hot tier: hot | cold
	HotTotalSize uint64            `json:"hot_total_size,omitempty"` // size-based retention of the hot tier (0 = none)
	Faults       []*simos.Fault    `json:"faults,omitempty"`         // disk fault plan (per node), armed by group
	NetFaults    map[string]string `json:"net_faults,omitempty"`     // "host/Method/n" -> drop_request | drop_reply
}

type clusterRunner struct {
	c       *ClusterCase
	s       *verifsim.Sim
	w       *simos.World
	res     *Result
	stores  []*simenv.Store // shard-major
	// seenMature: stores seen mature; forgotMaturity: one of them came back immature (see heal_all)
	seenMature     map[int]bool
	forgotMaturity bool
	net     *simenv.Net
	client  *bulk.SeqDBClient
	ing     *search.Ingestor
	corpus  *model.Corpus
	log     []string
	start   time.Time
	layouts map[string]bool
	hasDups bool // some document is present on more than one shard
	// faulty-cluster profiles
	maybe         map[model.ID]*model.Doc // documents of bulks that were not acknowledged
	asyncIDs      map[string]string       // case-level id -> id the proxy generated
	nHot          int                     // stores[:nHot] are the hot tier
	acked         [][]*model.Doc          // acknowledged bulks
	hotSt, coldSt *stores.Stores
}

func (r *clusterRunner) logf(f string, a ...any) {
	r.log = append(r.log, fmt.Sprintf("t=%d ", time.Since(r.start).Milliseconds())+fmt.Sprintf(f, a...))
}

func (r *clusterRunner) violate(clause, f string, a ...any) {
	for _, v := range r.res.Violations {
		if v.Clause == clause {
			return
		}
	}
	d := fmt.Sprintf(f, a...)
	if len(d) > 1500 {
		d = d[:1500]
	}
	r.res.Violations = append(r.res.Violations, Violation{Clause: clause, Detail: d})
	r.logf("VIOLATION %s: %s", clause, d)
}

// RunCluster executes one cluster case; done is called inside the bubble (stores keep tickers running).
func RunCluster(t *testing.T, c *ClusterCase, done func(*Result)) {
	res := &Result{Property: c.Property, Seed: c.Seed, Planned: map[string]int{}, Fired: map[string]int{}}
	simenv.ApplyGlobals(c.Knobs, c.Seed)
	logger.ResetSink()
	circuitbreaker.VerifReset()
	w := simos.NewWorld()
	w.SyncLatency = time.Duration(c.Knobs.SyncLatencyUs) * time.Microsecond
	simos.Install(w)
	r := &clusterRunner{c: c, w: w, res: res, corpus: model.NewCorpus(), layouts: map[string]bool{}}
	cfg := verifsim.Config{Seed: c.Seed, PSync: c.Knobs.PSync, PStmt: c.Knobs.PStmt, Schedule: c.Schedule, MaxSteps: 1500000, IdleLimit: 5000 * time.Hour}
	cfg.TraceSched = os.Getenv("VERIF_TRACE_SCHED") != ""
	cfg.OnEnd = func(s *verifsim.Sim) {
		if f := os.Getenv("VERIF_TRACE_SCHED"); f != "" {
			os.WriteFile(f, []byte(strings.Join(s.SchedTrace(), "\n")), 0o644)
		}
		res.Steps, res.Switches, res.SimMs = s.Steps(), s.Switches(), s.SimElapsed().Milliseconds()
		res.Hash = fmt.Sprintf("%016x", s.InterleavingHash())
		res.Digest = res.Hash
		res.Schedule = s.RecordedSchedule()
		res.Probes = map[string]int{}
		for k, v := range s.Probes {
			res.Probes[k] = v
		}
		for k, v := range r.net.Stats {
			res.Probes["net:"+k] = v
		}
		for k, v := range logger.SinkSnapshot() {
			if !strings.HasPrefix(k, "info:") {
				res.Probes["log:"+k] = v
			}
		}
		for l := range r.layouts {
			res.States = append(res.States, l)
		}
		sort.Strings(res.States)
		res.DiskStats = w.Stats
		res.Trace = tail(r.log, 80)
		if os.Getenv("VERIF_FULLTRACE") != "" {
			res.Trace = append(append(tail(r.log, 100000), "--- disk ---"), tail(w.Log, 100000)...)
			res.Trace = append(append(res.Trace, "--- seq-db log ---"), logger.SinkTail()...)
		}
		res.NonTrivial = res.Switches > 0 || len(res.States) > 0
		switch {
		case len(s.Failures) > 0:
			res.Outcome, res.Infra = "infra", fmt.Sprint(s.Failures)
		case len(res.Violations) > 0:
			res.Outcome = "violation"
		case s.Outcome != "":
			res.Outcome, res.Infra = "inconclusive", "run ended by: "+s.Outcome+"\n"+s.DumpTasks()
		default:
			res.Outcome = "ok"
		}
		done(res)
	}
	verifsim.RunBubble(t, cfg, func(s *verifsim.Sim) {
		r.s = s
		r.start = time.Now()
		// the proxy names asynchronous searches with random UUIDs: seeded like everything else
		uuid.SetRand(&seededReader{r: verifsim.NewSplitMix(c.Seed ^ 0x75756964)})
		if c.Profile != "" {
			r.scriptF()
		} else {
			r.script()
		}
	})
}

type seededReader struct{ r *verifsim.SplitMix }

func (s *seededReader) Read(p []byte) (int, error) {
	for i := range p {
		p[i] = byte(s.r.Uint64())
	}
	return len(p), nil
}

func (r *clusterRunner) script() {
	c := r.c
	r.net = simenv.NewNet(c.Seed, time.Duration(c.MaxLatencyMs)*time.Millisecond)
	hot := &stores.Stores{Shards: [][]string{}, Vers: []string{}}
	clients := map[string]pb.StoreApiClient{}
	for sh := 0; sh < c.HotShards; sh++ {
		var hosts []string
		for rep := 0; rep < c.HotReplicas; rep++ {
			name := fmt.Sprintf("hot-%d-%d", sh, rep)
			k := c.Knobs
			// stores of one cluster differ in how many fractions they search per iteration
			k.FractionsPerIteration = 1 + (c.Knobs.FractionsPerIteration+sh+rep)%4
			st := simenv.NewStore(r.s, r.w, name, k, "cold") // cold mode: no "wants old data" refusals in a fault-free layout check
			if res := st.Start(bootTimeout); res != "loaded" {
				r.violate("startup", "store %s did not start: %s %s", name, res, st.Node.Note())
				return
			}
			r.stores = append(r.stores, st)
			clients[name] = r.net.Client("proxy", st)
			hosts = append(hosts, name)
		}
		hot.Shards = append(hot.Shards, hosts)
		hot.Vers = append(hot.Vers, "v")
	}
	empty := &stores.Stores{Shards: [][]string{}, Vers: []string{}}
	r.client = bulk.NewSeqDBClient(hot, empty, circuitbreaker.Config{RequestVolumeThreshold: 101, Timeout: time.Hour}, clients)
	r.ing = search.NewIngestor(search.Config{HotStores: hot, ReadStores: empty, WriteStores: empty}, clients)

	for i := range c.Steps {
		st := &c.Steps[i]
		if len(r.res.Violations) > 0 {
			break
		}
		r.logf("step %d %s", i, st.Kind)
		switch st.Kind {
		case "par":
			r.par(st.Clients)
		case "sleep":
			r.s.SleepSim(time.Duration(st.Ms) * time.Millisecond)
		case "seal":
			for _, s := range r.stores {
				if s.Loaded && s.Knobs.FracSize >= 1<<29 {
					fm := s.FM
					s.Call(bootTimeout, func() { fm.VerifWaitAllIndexed(); fm.SealForcedForTests() })
				}
			}
		case "restart":
			s := r.stores[st.Group%len(r.stores)]
			if s.Loaded {
				s.StopGraceful(bootTimeout)
			}
			if res := s.Start(bootTimeout); res != "loaded" {
				r.violate("startup", "store %s did not restart: %s %s", s.Node.Name, res, s.Node.Note())
			}
		case "validate":
			r.validate(st.Label)
		}
	}
}

func (r *clusterRunner) par(clients [][]Op) {
	var tasks []*verifsim.Task
	for ci, ops := range clients {
		ci, ops := ci, ops
		tasks = append(tasks, r.s.GoOn(nil, func() {
			for i := range ops {
				op := &ops[i]
				r.res.Ops++
				switch op.Kind {
				case "sleep":
					r.s.SleepSim(time.Duration(op.Ms) * time.Millisecond)
				case "bulk":
					docs, metas := simenv.BuildBulk(op.Docs)
					err := r.client.StoreDocuments(context.Background(), len(op.Docs), docs, metas)
					r.logf("c%d bulk#%d (%d docs) -> %v", ci, op.Bulk, len(op.Docs), err)
					if err != nil {
						r.violate("api_error", "StoreDocuments failed without any fault: %v", err)
						return
					}
					for _, d := range op.Docs {
						r.corpus.Add(d)
					}
					if op.DupShard > 0 {
						sh := (op.DupShard - 1) % r.c.HotShards
						for rep := 0; rep < r.c.HotReplicas; rep++ {
							st := r.stores[sh*r.c.HotReplicas+rep]
							if ack, status, err := st.Bulk(opTimeout, op.Docs); !ack {
								r.violate("api_error", "direct bulk to %s failed without any fault: %s %v", st.Node.Name, status, err)
								return
							}
						}
						r.hasDups = true
						r.s.Probe("bulk_also_on_second_shard")
						r.logf("c%d bulk#%d also delivered to shard %d", ci, op.Bulk, sh)
					}
				}
			}
		}))
	}
	for _, t := range tasks {
		if res := r.s.WaitTask(t, nil, 6*time.Hour); res != "done" {
			r.violate("hang", "client did not finish (%s)\n%s", res, r.s.DumpTasks())
			return
		}
	}
}

func (r *clusterRunner) layoutFingerprint() {
	l := ""
	for _, s := range r.stores {
		sealed, active := 0, 0
		for _, f := range s.Fracs() {
			if f.Docs == 0 {
				continue
			}
			if f.Sealed {
				sealed++
			} else {
				active++
			}
		}
		l += fmt.Sprintf("%d+%d ", sealed, active)
	}
	r.layouts[fmt.Sprintf("%dx%d: %s", r.c.HotShards, r.c.HotReplicas, l)] = true
}

func toProxyReq(s *Search, offset, size int, fetch bool) *search.SearchRequest {
	order := seq.DocsOrderDesc
	if !s.Desc {
		order = seq.DocsOrderAsc
	}
	req := &search.SearchRequest{Q: []byte(s.Q.SeqQL()), Offset: offset, Size: size, Interval: seq.MID(s.Interval), From: seq.MID(s.From), To: seq.MID(s.To),
		WithTotal: s.WithTotal, ShouldFetch: fetch, Order: order}
	fn := map[string]seq.AggFunc{"count": seq.AggFuncCount, "sum": seq.AggFuncSum, "min": seq.AggFuncMin, "max": seq.AggFuncMax, "avg": seq.AggFuncAvg, "quantile": seq.AggFuncQuantile, "unique": seq.AggFuncUnique}
	for _, a := range s.Aggs {
		req.AggQ = append(req.AggQ, search.AggQuery{Field: a.Field, GroupBy: a.GroupBy, Func: fn[a.Func], Quantiles: a.Quantiles, Interval: seq.MID(a.Interval)})
	}
	return req
}

func (r *clusterRunner) validate(label string) {
	for _, s := range r.stores {
		if res := s.WaitIdle(opTimeout); res != "done" {
			r.violate("hang", "WaitIdle on %s: %s", s.Node.Name, res)
			return
		}
	}
	r.layoutFingerprint()
	battery := append([]*Search(nil), r.c.Battery...)
	battery = append(battery, &Search{Q: &model.Q{Op: "all"}, From: 0, To: math.MaxInt64, Size: 100000, Desc: true, WithTotal: true},
		&Search{Q: &model.Q{Op: "all"}, From: 0, To: math.MaxInt64, Size: 100000, Desc: false, WithTotal: true})
	if r.c.Property == "C05" && len(battery) > 0 {
		// a page whose end (offset + size) does not fit an integer: the request cannot be honoured, it must be
		// refused - and every store must still be there afterwards
		s := battery[0]
		_, _, _, err := r.ing.Search(context.Background(), toProxyReq(s, 1+int(r.c.Seed%7), math.MaxInt, true), querytracer.New(false, ""))
		r.logf("%s: page with offset+size beyond the integer range -> %v", label, err)
		for _, st := range r.stores {
			if !st.Node.Alive() {
				r.violate("process_died", "%s: store %s died on a search whose offset+size overflows: %s", label, st.Node.Name, st.Node.Note())
				return
			}
		}
		if err == nil {
			r.violate("search_result", "%s: a page whose end does not fit an integer was answered instead of refused", label)
			return
		}
		r.s.Probe("page_end_overflow_refused")
	}
	for qi, s := range battery {
		want := r.corpus.Matching(s.Q, s.From, s.To, s.Desc)
		// 1. one request for everything (limited by the search's own size)
		size := s.Size
		qpr, docs, _, err := r.ing.Search(context.Background(), toProxyReq(s, 0, size, qi%3 == 0), querytracer.New(false, ""))
		if err != nil {
			r.violate("api_error", "%s: proxy search %q failed without any fault: %v", label, s.Q.SeqQL(), err)
			return
		}
		wantIDs := want
		if len(wantIDs) > size {
			wantIDs = wantIDs[:size]
		}
		if msg := compareIDs(qpr.IDs, wantIDs); msg != "" {
			r.violate("search_result", "%s: proxy search %q [%d,%d] desc=%v size=%d over %dx%d stores: %s", label, s.Q.SeqQL(), s.From, s.To, s.Desc, size, r.c.HotShards, r.c.HotReplicas, msg)
			return
		}
		if qi%3 == 0 {
			for i, id := range qpr.IDs {
				d, err := docs.Next()
				if err != nil {
					r.violate("docs_stream", "%s: docs stream ended at %d of %d: %v", label, i, len(qpr.IDs), err)
					return
				}
				wd := r.corpus.Docs[model.ID{MID: uint64(id.ID.MID), RID: uint64(id.ID.RID)}]
				if d.ID != id.ID || string(d.Data) != string(wd.Body()) {
					r.violate("docs_stream", "%s: document %d of the stream is %s %q, expected the document of id %s", label, i, d.ID, clip(d.Data), id.ID)
					return
				}
			}
			if _, err := docs.Next(); err != io.EOF {
				r.violate("docs_stream", "%s: docs stream has more entries than ids", label)
				return
			}
		}
		// Documents present on several shards are listed once (checked above). The merge corrects total
		// and histogram for the repetitions it removes from the listing, so with such documents these
		// counts are demanded only when the listing covers the whole result; aggregations are not
		// corrected for copies at all and are not compared then (DESIGN.md 10).
		countsDefined := !r.hasDups || size >= len(want)+1
		if !countsDefined {
			r.s.Probe("counts_skipped_partial_page_with_copies")
		}
		if countsDefined && s.WithTotal && qpr.Total != uint64(len(want)) {
			r.violate("total", "%s: proxy search %q reports total %d, model has %d", label, s.Q.SeqQL(), qpr.Total, len(want))
			return
		}
		if countsDefined && s.Interval > 0 {
			wh := model.Hist(want, s.Interval)
			for k, v := range wh {
				if qpr.Histogram[seq.MID(k)] != v {
					r.violate("histogram", "%s: proxy search %q interval %d: bucket %d holds %d, model %d", label, s.Q.SeqQL(), s.Interval, k, qpr.Histogram[seq.MID(k)], v)
					return
				}
			}
			for k, v := range qpr.Histogram {
				if v != 0 && wh[uint64(k)] == 0 {
					r.violate("histogram", "%s: proxy search %q interval %d: unexpected bucket %d=%d", label, s.Q.SeqQL(), s.Interval, k, v)
					return
				}
			}
		}
		if len(s.Aggs) > 0 && !r.hasDups {
			if len(qpr.Aggs) != len(s.Aggs) {
				r.violate("aggregation", "%s: %d aggregations requested, %d returned", label, len(s.Aggs), len(qpr.Aggs))
				return
			}
			for i, a := range s.Aggs {
				if msg := checkQPRAgg(a, &qpr.Aggs[i], want); msg != "" {
					r.violate("aggregation", "%s: proxy search %q agg %+v over %d shards: %s", label, s.Q.SeqQL(), a, r.c.HotShards, msg)
					return
				}
			}
		}
		// 2. paging walks the same ordered list without gaps or repeats
		if len(r.c.PageSizes) > 0 && len(want) > 0 {
			p := r.c.PageSizes[qi%len(r.c.PageSizes)]
			var got []seq.IDSource
			for off := 0; off < len(want)+p && off < 12*p; off += p {
				pq, _, _, err := r.ing.Search(context.Background(), toProxyReq(s, off, p, false), querytracer.New(false, ""))
				if err != nil {
					r.violate("api_error", "%s: proxy search page failed: %v", label, err)
					return
				}
				got = append(got, pq.IDs...)
				if len(pq.IDs) < p {
					break
				}
			}
			wantPaged := want
			if len(wantPaged) > len(got) {
				wantPaged = wantPaged[:len(got)]
			}
			if len(got) < min(len(want), 12*p) {
				r.violate("paging", "%s: paging %q with size %d returned %d ids in total, the list has %d", label, s.Q.SeqQL(), p, len(got), len(want))
				return
			}
			if msg := compareIDs(got, wantPaged); msg != "" {
				r.violate("paging", "%s: pages of size %d of %q do not concatenate to the ordered list: %s", label, p, s.Q.SeqQL(), msg)
				return
			}
		}
	}
	r.logf("validate %s ok: %d docs, %d queries", label, len(r.corpus.Docs), len(battery))
}

func compareIDs(got seq.IDSources, want []*model.Doc) string {
	if len(got) != len(want) {
		return fmt.Sprintf("returned %d ids, model has %d", len(got), len(want))
	}
	for i := range got {
		if uint64(got[i].ID.MID) != want[i].MID || uint64(got[i].ID.RID) != want[i].RID {
			return fmt.Sprintf("position %d is %d-%d, model says %s", i, got[i].ID.MID, got[i].ID.RID, want[i].ID())
		}
	}
	return ""
}

func checkQPRAgg(a simenv.AggReq, got *seq.AggregatableSamples, docs []*model.Doc) string {
	if a.Interval > 0 && a.Func != "unique" {
		var bins []tsBin
		for bin, sc := range got.SamplesByBin {
			if sc == nil {
				continue
			}
			bins = append(bins, tsBin{Tok: bin.Token, MID: uint64(bin.MID), Total: sc.Total, Sum: sc.Sum, Min: sc.Min, Max: sc.Max, Samples: sc.Samples})
		}
		sort.Slice(bins, func(i, j int) bool {
			if bins[i].MID != bins[j].MID {
				return bins[i].MID < bins[j].MID
			}
			return bins[i].Tok < bins[j].Tok
		})
		return compareTS(a, bins, docs)
	}
	return compareQPRAgg(a, got, model.Agg(docs, a.Func, a.Field, a.GroupBy))
}

func compareQPRAgg(a simenv.AggReq, got *seq.AggregatableSamples, want *model.AggExpect) string {
	if got.NotExists != want.NotExists {
		return fmt.Sprintf("not_exists %d, model %d", got.NotExists, want.NotExists)
	}
	byTok := map[string]*seq.SamplesContainer{}
	for bin, sc := range got.SamplesByBin {
		if prev, dup := byTok[bin.Token]; dup && prev != nil {
			return fmt.Sprintf("bin %q appears under two timestamps", bin.Token)
		}
		byTok[bin.Token] = sc
	}
	for k, wb := range want.Bins {
		gb := byTok[k]
		if gb == nil {
			return fmt.Sprintf("bin %q missing (model total %d)", k, wb.Total)
		}
		if a.Func == "unique" {
			continue
		}
		if gb.Total != wb.Total || gb.NotExists != wb.NotExists {
			return fmt.Sprintf("bin %q total/not_exists %d/%d, model %d/%d", k, gb.Total, gb.NotExists, wb.Total, wb.NotExists)
		}
		if a.Field != "" && wb.Total > 0 {
			if (a.Field != "big" && gb.Sum != wb.Sum) || gb.Min != wb.Min || gb.Max != wb.Max {
				return fmt.Sprintf("bin %q sum/min/max %v/%v/%v, model %v/%v/%v", k, gb.Sum, gb.Min, gb.Max, wb.Sum, wb.Min, wb.Max)
			}
			if needsSamples(a) && len(wb.Samples) <= seq.VerifMaxHistogramSamples() {
				gs := append([]float64(nil), gb.Samples...)
				sort.Float64s(gs)
				if len(gs) != len(wb.Samples) {
					return fmt.Sprintf("bin %q has %d samples, model %d", k, len(gs), len(wb.Samples))
				}
				for i := range gs {
					if gs[i] != wb.Samples[i] {
						return fmt.Sprintf("bin %q sample %d is %v, model %v", k, i, gs[i], wb.Samples[i])
					}
				}
				for _, q := range a.Quantiles {
					idx := int(float64(len(wb.Samples)-1)*q + 0.5)
					if gq := gb.Quantile(q); gq != wb.Samples[idx] && q > 0 && q < 1 {
						return fmt.Sprintf("bin %q quantile %v is %v, model %v", k, q, gq, wb.Samples[idx])
					}
				}
			}
		}
	}
	for k, gb := range byTok {
		if want.Bins[k] == nil {
			return fmt.Sprintf("unexpected bin %q (total %d)", k, gb.Total)
		}
	}
	// the values handed to the API user: one per bin, computed by the proxy from the merged summaries
	fn := map[string]seq.AggFunc{"count": seq.AggFuncCount, "sum": seq.AggFuncSum, "min": seq.AggFuncMin, "max": seq.AggFuncMax, "avg": seq.AggFuncAvg, "quantile": seq.AggFuncQuantile, "unique": seq.AggFuncUnique}
	res := got.Aggregate(seq.AggregateArgs{Func: fn[a.Func], Quantiles: a.Quantiles})
	named := map[string]bool{}
	for _, b := range res.Buckets {
		named[b.Name] = true
	}
	for _, k := range sortedBinNames(want) {
		if !named[k] {
			return fmt.Sprintf("bin %q is in the merged summaries but not among the %d values handed to the API user", k, len(res.Buckets))
		}
	}
	for _, b := range res.Buckets {
		wb := want.Bins[b.Name]
		if wb == nil {
			continue // reported above
		}
		var exp float64
		switch a.Func {
		case "count", "unique":
			exp = float64(wb.Total)
		case "sum":
			exp = wb.Sum
		case "min":
			exp = wb.Min
		case "max":
			exp = wb.Max
		case "avg":
			if wb.Total != 0 {
				exp = wb.Sum / float64(wb.Total)
			}
		case "quantile":
			if len(wb.Samples) == 0 || len(wb.Samples) > seq.VerifMaxHistogramSamples() || len(a.Quantiles) == 0 {
				continue
			}
			q := a.Quantiles[0]
			if q <= 0 || q >= 1 {
				if q <= 0 {
					exp = wb.Min
				} else {
					exp = wb.Max
				}
			} else {
				exp = wb.Samples[int(float64(len(wb.Samples)-1)*q+0.5)]
			}
		}
		if a.Field == "big" && (a.Func == "sum" || a.Func == "avg") {
			continue
		}
		if wb.Total == 0 && a.Func != "count" && a.Func != "unique" {
			if !math.IsNaN(b.Value) {
				return fmt.Sprintf("bin %q has no value of the field: the %s reported is %v, not NaN", b.Name, a.Func, b.Value)
			}
			continue
		}
		if b.Value != exp {
			return fmt.Sprintf("bin %q: %s reported %v, model %v", b.Name, a.Func, b.Value, exp)
		}
	}
	return ""
}

// GenCluster builds the case of C05 / C06.
func GenCluster(property string, seed uint64, tier Tier) *ClusterCase {
	g := newGen(seed, "cluster")
	c := &ClusterCase{Property: property, Seed: seed}
	c.Knobs = g.knobs()
	c.Knobs.TotalSize = 1 << 40
	c.Knobs.StepCostNs = 0
	c.Knobs.SyncLatencyUs = 0
	c.Knobs.FracSize = uint64(g.r.Range(900, 5000)) // rotation/sealing at different moments on different nodes
	if g.r.Bool(0.2) {
		c.Knobs.FracSize = 1 << 30
	}
	c.HotShards, c.HotReplicas = g.r.Range(1, 3), g.r.Range(1, 3)
	c.MaxLatencyMs = []int{0, 5, 50, 500}[g.r.Intn(4)]
	copies := property == "C05" && g.r.Bool(0.3) // documents present on several shards
	g.bigNums = property == "C06" && g.r.Bool(0.3)
	rounds := g.r.Range(1, 3)
	for round := 0; round < rounds; round++ {
		nclients := g.r.Range(1, 3)
		var clients [][]Op
		for ci := 0; ci < nclients; ci++ {
			var ops []Op
			for i := 0; i < g.r.Range(2, 7); i++ {
				ops = append(ops, g.bulk(g.bulkSize()))
				if copies && g.r.Bool(0.4) {
					ops[len(ops)-1].DupShard = g.r.Range(1, c.HotShards)
				}
				if g.r.Bool(0.3) {
					ops = append(ops, Op{Kind: "sleep", Ms: g.r.Range(1, 400)})
				}
			}
			clients = append(clients, ops)
		}
		c.Steps = append(c.Steps, Step{Kind: "par", Clients: clients})
		switch g.r.Intn(4) {
		case 0:
			c.Steps = append(c.Steps, Step{Kind: "seal"})
		case 1:
			c.Steps = append(c.Steps, Step{Kind: "restart", Group: g.r.Intn(9)})
		case 2:
			c.Steps = append(c.Steps, Step{Kind: "sleep", Ms: int64(g.r.Range(100, 5000))})
		}
		c.Steps = append(c.Steps, Step{Kind: "validate", Label: fmt.Sprintf("round%d", round)})
		g.nowMs += 3000
	}
	n := 6
	if property == "C06" {
		n = 10
	}
	for i := 0; i < n; i++ {
		s := g.search(true)
		if property == "C06" {
			// aggregation/histogram heavy
			s.Aggs = []simenv.AggReq{g.agg()}
			if g.r.Bool(0.5) {
				s.Aggs = append(s.Aggs, g.agg())
			}
			s.Interval = []uint64{0, 1, 1000, 60000}[g.r.Intn(4)]
			s.WithTotal = true
		}
		c.Battery = append(c.Battery, s)
	}
	c.PageSizes = []int{g.r.Range(1, 4), g.r.Range(2, 9), 1}
	return c
}

func sortedBinNames(want *model.AggExpect) []string {
	out := make([]string, 0, len(want.Bins))
	for k := range want.Bins {
		out = append(out, k)
	}
	sort.Strings(out)
	return out
}

package storesim

import (
	"fmt"
	"math"

	"verif/harness/model"
	"verif/harness/simenv"

	"github.com/ozontech/seq-db/verifsim"
	"github.com/ozontech/seq-db/verifsim/simos"
)

// Tier scales sizes.
type Tier struct {
	Thorough bool
}

type gen struct {
	r         *verifsim.SplitMix
	nextRID   uint64
	nextBulk  int
	nowMs     uint64 // generator's idea of the simulated clock
	docs      []*model.Doc
	smallDocs bool
	nested    bool // some documents carry nested elements (several rows under one ID)
	oddTokens bool // group-by values that look like syntax of the persisted formats ("200|/api", "12|", ...)
	lateDocs  bool // some documents are minutes to hours older than the fraction that receives them (late arrivals)
	bigNums   bool // some documents carry a numeric field "big" with magnitudes beyond the int64 range
}

func newGen(seed uint64, stream string) *gen {
	return &gen{r: verifsim.NewSplitMix(seed).Split(stream), nowMs: BaseMs}
}

var vocab = []string{"a", "ab", "abc", "abd", "b", "ba", "bab", "c", "x1", "x2", "x10", "zz"}

// doc draws one document with timestamp near ts.
func (g *gen) doc(ts uint64) *model.Doc {
	g.nextRID++
	d := &model.Doc{MID: ts, RID: g.nextRID<<20 | g.r.Uint64()&0xfffff}
	switch g.r.Intn(20) {
	case 0:
		d.Size = 1
	case 1:
		d.Size = g.r.Range(2000, 20000)
		if g.smallDocs {
			d.Size = g.r.Range(300, 600)
		}
	default:
		d.Size = g.r.Range(30, 300)
	}
	nt := g.r.Range(1, 4)
	for i := 0; i < nt; i++ {
		f := fmt.Sprintf("k%d", g.r.Intn(4))
		v := vocab[g.r.Intn(len(vocab))]
		dup := false
		for _, t := range d.Toks {
			if t.F == f && t.V == v {
				dup = true
			}
		}
		if !dup {
			d.Toks = append(d.Toks, model.Tok{F: f, V: v})
		}
	}
	if g.r.Bool(0.8) {
		svc := []string{"alpha", "beta", "gamma"}[g.r.Intn(3)]
		if g.oddTokens && g.r.Bool(0.4) {
			svc = []string{"200|/api", "12|", "|x", "a|b", "-1|y", "7", "0|alpha"}[g.r.Intn(7)]
		}
		d.Toks = append(d.Toks, model.Tok{F: "svc", V: svc})
	}
	if g.r.Bool(0.7) {
		d.Toks = append(d.Toks, model.Tok{F: "num", V: fmt.Sprint(g.r.Range(-5, 40))})
	}
	if g.r.Bool(0.3) {
		d.Toks = append(d.Toks, model.Tok{F: "u", V: fmt.Sprintf("u%d", g.nextRID)})
	}
	if g.bigNums && g.r.Bool(0.5) {
		d.Toks = append(d.Toks, model.Tok{F: "big", V: []string{"1e19", "2e19", "-3e19", "-1e19", "12345678901234567890123", "7", "-2"}[g.r.Intn(7)]})
	}
	if g.nested && g.r.Bool(0.4) {
		for i, n := 0, g.r.Range(1, 3); i < n; i++ {
			row := []model.Tok{{F: "n.a", V: vocab[g.r.Intn(len(vocab))]}}
			if g.r.Bool(0.5) {
				row = append(row, model.Tok{F: "n.b", V: fmt.Sprintf("e%d", g.r.Intn(6))})
			}
			d.Nested = append(d.Nested, row)
		}
	}
	g.docs = append(g.docs, d)
	return d
}

// bulk draws a bulk of n fresh documents around the generator's clock.
func (g *gen) bulk(n int) Op {
	g.nextBulk++
	op := Op{Kind: "bulk", Bulk: g.nextBulk}
	base := g.nowMs
	for i := 0; i < n; i++ {
		var ts uint64
		switch g.r.Intn(6) {
		case 0:
			ts = base // equal timestamps
		case 1:
			ts = base - uint64(g.r.Intn(5000)) // out of order, in the past
		default:
			ts = base + uint64(g.r.Intn(2000))
		}
		if g.lateDocs && g.r.Bool(0.25) {
			ts = base - uint64(g.r.Range(11*60000, 20*3600000)) // late arrival: the sealed form gets a time distribution
		}
		op.Docs = append(op.Docs, g.doc(ts))
	}
	return op
}

func (g *gen) bulkSize() int {
	switch g.r.Intn(8) {
	case 0:
		return 1
	case 1:
		return g.r.Range(20, 40)
	default:
		return g.r.Range(2, 10)
	}
}

// query draws a query tree.
func (g *gen) query(depth int) *model.Q {
	if depth <= 0 || g.r.Bool(0.45) {
		f := fmt.Sprintf("k%d", g.r.Intn(4))
		if g.nested && g.r.Bool(0.3) {
			if g.r.Bool(0.5) {
				return &model.Q{Op: "term", F: "n.a", V: vocab[g.r.Intn(len(vocab))]}
			}
			return &model.Q{Op: "term", F: "n.b", V: fmt.Sprintf("e%d", g.r.Intn(7))}
		}
		switch g.r.Intn(10) {
		case 0:
			return &model.Q{Op: "exists", F: []string{"svc", "num", "u", f}[g.r.Intn(4)]}
		case 1:
			v := vocab[g.r.Intn(len(vocab))]
			pats := []string{v + "*", "*" + v, "*" + v + "*", v[:1] + "*" + v[len(v)-1:]}
			return &model.Q{Op: "glob", F: f, V: pats[g.r.Intn(len(pats))]}
		case 2:
			lo := g.r.Range(-6, 30)
			return &model.Q{Op: "range", F: "num", Lo: lo, Hi: lo + g.r.Range(0, 15), LoInc: g.r.Bool(0.5), HiInc: g.r.Bool(0.5)}
		case 3:
			return &model.Q{Op: "in", F: f, Vs: []string{vocab[g.r.Intn(len(vocab))], vocab[g.r.Intn(len(vocab))]}}
		case 4:
			return &model.Q{Op: "term", F: "svc", V: []string{"alpha", "beta", "gamma", "delta"}[g.r.Intn(4)]}
		default:
			return &model.Q{Op: "term", F: f, V: vocab[g.r.Intn(len(vocab))]}
		}
	}
	switch g.r.Intn(3) {
	case 0:
		return &model.Q{Op: "not", Kids: []*model.Q{g.query(depth - 1)}}
	case 1:
		return &model.Q{Op: "and", Kids: []*model.Q{g.query(depth - 1), g.query(depth - 1)}}
	default:
		return &model.Q{Op: "or", Kids: []*model.Q{g.query(depth - 1), g.query(depth - 1)}}
	}
}

func (g *gen) search(full bool) *Search {
	s := &Search{Q: g.query(g.r.Intn(3)), From: 0, To: math.MaxInt64, Size: 100000, Desc: g.r.Bool(0.6)}
	if g.r.Bool(0.4) && !g.nested {
		// (rows of one nested document use up the limit before adjacent repetitions are dropped:
		// limited listings are only defined for documents without nested elements)
		s.Size = g.r.Range(0, 12)
	}
	if g.r.Bool(0.4) && len(g.docs) > 0 {
		a := g.docs[g.r.Intn(len(g.docs))].MID
		b := g.docs[g.r.Intn(len(g.docs))].MID
		if a > b {
			a, b = b, a
		}
		s.From, s.To = a, b
		if g.r.Bool(0.3) {
			s.From++
		}
		if g.r.Bool(0.3) && s.To > 0 {
			s.To--
		}
	}
	if full {
		s.WithTotal = g.r.Bool(0.7)
		if g.r.Bool(0.4) {
			s.Interval = []uint64{1, 1000, 60000, 7}[g.r.Intn(4)]
		}
		if g.r.Bool(0.5) {
			s.Aggs = append(s.Aggs, g.agg())
			if g.r.Bool(0.3) {
				s.Aggs = append(s.Aggs, g.agg())
			}
		}
	}
	return s
}

// agg draws an aggregation; one in four is a time series with its own interval.
func (g *gen) agg() simenv.AggReq {
	a := g.agg0()
	if a.Func != "unique" && g.r.Bool(0.25) {
		a.Interval = []int64{1000, 60000, 7, 3600000}[g.r.Intn(4)]
	}
	return a
}

func (g *gen) agg0() simenv.AggReq {
	if g.bigNums && g.r.Bool(0.4) {
		// only order statistics: sums of such magnitudes depend on the order of floating-point additions
		a := simenv.AggReq{Func: []string{"min", "max", "quantile"}[g.r.Intn(3)], Field: "big", GroupBy: []string{"svc", ""}[g.r.Intn(2)]}
		if a.Func == "quantile" {
			a.Quantiles = []float64{0, 0.5, 1}
		}
		return a
	}
	switch g.r.Intn(7) {
	case 0:
		return simenv.AggReq{Func: "count", GroupBy: "svc"}
	case 1:
		return simenv.AggReq{Func: "unique", GroupBy: "svc"}
	case 2:
		return simenv.AggReq{Func: "sum", Field: "num"}
	case 3:
		return simenv.AggReq{Func: "min", Field: "num", GroupBy: "svc"}
	case 4:
		return simenv.AggReq{Func: "max", Field: "num", GroupBy: "svc"}
	case 5:
		return simenv.AggReq{Func: "avg", Field: "num", GroupBy: "svc"}
	default:
		// (only the extremes: the store then collects no samples at all)
		qs := [][]float64{{0.5, 0.99}, {0.5, 0.99}, {0, 1}, {1}, {0}, {0, 0.5, 1}}[g.r.Intn(6)]
		return simenv.AggReq{Func: "quantile", Field: "num", GroupBy: []string{"svc", "svc", ""}[g.r.Intn(3)], Quantiles: qs}
	}
}

func (g *gen) battery(n int) []*Search {
	var out []*Search
	for i := 0; i < n; i++ {
		out = append(out, g.search(true))
	}
	return out
}

// readerOp draws a search or a fetch of known/unknown ids.
func (g *gen) readerOp() Op {
	if g.r.Bool(0.7) || len(g.docs) == 0 {
		return Op{Kind: "search", S: g.search(false)}
	}
	var ids []model.ID
	n := g.r.Range(1, 12)
	seen := map[model.ID]bool{}
	for i := 0; i < n; i++ {
		var id model.ID
		d := g.docs[g.r.Intn(len(g.docs))]
		switch g.r.Intn(5) {
		case 0:
			id = model.ID{MID: d.MID, RID: d.RID + 1} // same timestamp, absent
		case 1:
			id = model.ID{MID: d.MID - 1, RID: math.MaxUint64}
		default:
			id = d.ID()
		}
		if !seen[id] {
			seen[id] = true
			ids = append(ids, id)
		}
	}
	return Op{Kind: "fetch", IDs: ids}
}

// knobs draws the swarm configuration.
func (g *gen) knobs() simenv.Knobs {
	r := g.r
	k := simenv.DefaultKnobs()
	k.IndexWorkers = r.Range(1, 4)
	k.FetchWorkers = r.Range(1, 3)
	k.ReaderWorkers = r.Range(1, 3)
	k.SearchWorkers = r.Range(1, 4)
	k.FractionsPerIteration = r.Range(1, 4)
	k.SkipSortDocs = r.Bool(0.25)
	k.KeepMetaFile = r.Bool(0.15)
	k.ZstdLevel = []int{-5, 1, 3}[r.Intn(3)]
	k.DocBlockSize = []int{128, 1024, 4096, 1 << 20}[r.Intn(4)]
	k.CacheSize = []uint64{8 << 10, 64 << 10, 1 << 20, 256 << 20}[r.Intn(4)]
	k.MaintenanceDelayMs = []int{50, 200, 1000}[r.Intn(3)]
	k.CacheCleanupDelayMs = []int{20, 200, 1000}[r.Intn(3)]
	k.CacheGCDelayMs = []int{50, 500, 1000}[r.Intn(3)]
	k.MaxFetchSizeBytes = []int{200, 4096, 4 << 20}[r.Intn(3)]
	k.SyncLatencyUs = []int{0, 0, 100, 2000}[r.Intn(4)]
	k.FsyncCommitsJournal = r.Bool(0.5)
	k.PSync = []float64{0, 0.05, 0.2, 0.5}[r.Intn(4)]
	k.PStmt = []float64{0, 0, 0.002, 0.02}[r.Intn(4)]
	k.StepCostNs = []int{0, 0, 1000, 100000}[r.Intn(4)]
	k.AsyncParallelism = r.Range(1, 3)
	k.AggLimits = r.Bool(0.5)
	return k
}

func (g *gen) crashFault(group int, paths []string, maxNth int) *simos.Fault {
	r := g.r
	f := &simos.Fault{Group: group, ImageSeed: r.Uint64(), After: r.Bool(0.4)}
	f.Action = "crash"
	if r.Bool(0.25) {
		f.Action = "exit"
	}
	switch r.Intn(4) {
	case 0:
		f.Op = "mut"
	case 1:
		f.Op = "sync"
	default:
		f.Op = "write"
	}
	if len(paths) > 0 && r.Bool(0.8) {
		f.PathSuffix = paths[r.Intn(len(paths))]
	}
	f.Nth = r.Range(1, max(1, maxNth))
	switch r.Intn(5) {
	case 0:
		f.ImageMode = "all"
	case 1:
		f.ImageMode = "none"
	}
	return f
}

// GenCase builds the case of a property for a seed.
func GenCase(property string, seed uint64, tier Tier) *Case {
	switch property {
	case "C01":
		return genC01(seed, tier)
	case "C03":
		return genC03(seed, tier)
	case "C05":
		return genC05Retention(seed, tier)
	case "C07":
		return genC07(seed, tier)
	case "C08":
		return genC08(seed, tier)
	case "C14":
		return genC14(seed, tier)
	case "C15":
		return genC15(seed, tier)
	case "C17":
		return genC17(seed, tier)
	case "C19":
		return genC19(seed, tier)
	}
	panic("no generator for " + property)
}

// genC01Recovery is the sub-profile "durability right after a recovery": a crash inside the write of
// a large bulk (so that a long partial tail is left behind), restart, then a few very small bulks that
// are acknowledged, then a power loss with nothing or little of the page cache surviving. Whatever
// state the recovery left in the writers, an acknowledged bulk must already be durable.
func genC01Recovery(g *gen, c *Case) *Case {
	c.Profile = "c01-recovery"
	c.Knobs.FracSize = 1 << 30
	rounds := g.r.Range(1, 2)
	for round := 1; round <= rounds; round++ {
		var ops []Op
		if g.r.Bool(0.5) {
			ops = append(ops, g.bulk(g.r.Range(1, 3)))
		}
		ops = append(ops, g.bulk(g.r.Range(25, 60)))
		f := &simos.Fault{Group: round, Op: "write", Action: "crash", ImageSeed: g.r.Uint64(), Nth: len(ops)}
		f.PathSuffix = []string{".meta", ".meta", ".docs"}[g.r.Intn(3)]
		if g.r.Bool(0.2) {
			f.After = true
		}
		c.Faults = append(c.Faults, f)
		c.Steps = append(c.Steps, Step{Kind: "arm", Group: round}, Step{Kind: "par", Clients: [][]Op{ops}}, Step{Kind: "disarm"},
			Step{Kind: "start"}, Step{Kind: "validate", Label: fmt.Sprintf("recovered%d", round)})
		var small []Op
		for i, n := 0, g.r.Range(1, 4); i < n; i++ {
			small = append(small, g.bulk(1))
		}
		c.Steps = append(c.Steps, Step{Kind: "par", Clients: [][]Op{small}})
		mode := []string{"none", "none", "", "all"}[g.r.Intn(4)]
		c.Steps = append(c.Steps, Step{Kind: "powerloss", ImageSeed: g.r.Uint64(), ImageMode: mode},
			Step{Kind: "start"}, Step{Kind: "validate", Label: fmt.Sprintf("after-powerloss%d", round)})
		g.nowMs += 2000
	}
	c.Battery = g.battery(3)
	return c
}

// ---- C01 -----------------------------------------------------------------------------------------

func genC01(seed uint64, tier Tier) *Case {
	g := newGen(seed, "c01")
	c := &Case{Property: "C01", Profile: "c01", Seed: seed}
	c.Knobs = g.knobs()
	c.Knobs.TotalSize = 1 << 40
	if g.r.Bool(0.5) {
		c.Knobs.FracSize = uint64(g.r.Range(800, 6000)) // rotation and sealing during the run
	} else {
		c.Knobs.FracSize = 1 << 30
	}
	c.Steps = append(c.Steps, Step{Kind: "start"})
	if g.r.Bool(0.2) {
		return genC01Recovery(g, c)
	}
	rounds := g.r.Range(1, 4)
	for round := 1; round <= rounds; round++ {
		nclients := g.r.Range(1, 3)
		var clients [][]Op
		nbulks := 0
		for ci := 0; ci < nclients; ci++ {
			var ops []Op
			nops := g.r.Range(1, 5)
			for i := 0; i < nops; i++ {
				switch {
				case g.r.Bool(0.75):
					ops = append(ops, g.bulk(g.bulkSize()))
					nbulks++
				case g.r.Bool(0.5):
					ops = append(ops, g.readerOp())
				default:
					ops = append(ops, Op{Kind: "sleep", Ms: g.r.Range(1, 600)})
					g.nowMs += 300
				}
			}
			clients = append(clients, ops)
		}
		armed := g.r.Bool(0.75)
		if armed {
			f := g.crashFault(round, []string{".docs", ".meta", ".docs", ".meta", ""}, 2*nbulks+1)
			if g.r.Bool(0.15) {
				// not a crash: one write to the active files fails (disk error, disk full, short write) and the store
				// goes on; the bulk it belonged to is not acknowledged, whatever is acknowledged afterwards has to
				// survive the restarts like any other bulk
				f.Action = []string{"eio", "enospc", "short"}[g.r.Intn(3)]
				f.Op, f.After = "write", false
				f.PathSuffix = []string{".meta", ".docs"}[g.r.Intn(2)]
				if g.r.Bool(0.4) {
					// the write went through, the fsync that follows it fails: the block is in the file, nobody was told
					// that it is durable
					f.Op, f.Action = "sync", "eio"
				}
			}
			c.Faults = append(c.Faults, f)
			c.Steps = append(c.Steps, Step{Kind: "arm", Group: round})
		}
		c.Steps = append(c.Steps, Step{Kind: "par", Clients: clients})
		if armed {
			c.Steps = append(c.Steps, Step{Kind: "disarm"})
		}
		switch g.r.Intn(6) {
		case 0:
			c.Steps = append(c.Steps, Step{Kind: "stop"})
		case 1:
			c.Steps = append(c.Steps, Step{Kind: "kill"})
		case 2, 3:
			mode := []string{"", "", "all", "none"}[g.r.Intn(4)]
			c.Steps = append(c.Steps, Step{Kind: "powerloss", ImageSeed: g.r.Uint64(), ImageMode: mode})
		case 4:
			c.Steps = append(c.Steps, Step{Kind: "sleep", Ms: int64(g.r.Range(100, 3000))})
			g.nowMs += 1000
		}
		if g.r.Bool(0.15) {
			c.Steps = append(c.Steps, Step{Kind: "start_cancelled", Ms: int64(g.r.Range(1, 12))})
		}
		c.Steps = append(c.Steps, Step{Kind: "start"}, Step{Kind: "validate", Label: fmt.Sprintf("round%d", round)})
		g.nowMs += 2000
	}
	c.Battery = g.battery(4)
	return c
}

package storesim

import (
	"context"
	"errors"
	"fmt"
	"io"
	"math"
	"sort"
	"strings"
	"time"

	"verif/harness/model"
	"verif/harness/simenv"

	"github.com/ozontech/seq-db/consts"
	"github.com/ozontech/seq-db/network/circuitbreaker"
	pb "github.com/ozontech/seq-db/pkg/storeapi"
	"github.com/ozontech/seq-db/proxy/bulk"
	"github.com/ozontech/seq-db/proxy/search"
	"github.com/ozontech/seq-db/proxy/stores"
	"github.com/ozontech/seq-db/querytracer"
	"github.com/ozontech/seq-db/seq"
	"github.com/ozontech/seq-db/verifsim"
	"github.com/ozontech/seq-db/verifsim/simos"
	"google.golang.org/grpc/codes"
	"google.golang.org/grpc/status"
)

// Cluster profiles with faults ("real-store lanes" of C16 and C19): the real proxy code (bulk client,
// search ingestor, async fan-out) against real stores on the simulated transport, with stores that are
// killed, lose power, restart and get partitioned, a hot tier with size-based retention and a long-term
// tier. The stub engines decide the proxy's logic over all scripted behaviours; these lanes decide
// what only exists between real components: a hot store declaring a range too old after it evicted
// data, an asynchronous search that lives on real disks behind the proxy's fan-out.

// scriptF runs the steps of a faulty-cluster case.
func (r *clusterRunner) scriptF() {
	c := r.c
	r.net = simenv.NewNet(c.Seed, time.Duration(c.MaxLatencyMs)*time.Millisecond)
	r.maybe = map[model.ID]*model.Doc{}
	r.asyncIDs = map[string]string{}
	r.w.Plan = c.Faults
	for k, v := range c.NetFaults {
		r.net.Faults[k] = v
	}
	clients := map[string]pb.StoreApiClient{}
	mk := func(prefix string, shards, replicas int, mode string, knobs simenv.Knobs) *stores.Stores {
		st := &stores.Stores{Shards: [][]string{}, Vers: []string{}}
		for sh := 0; sh < shards; sh++ {
			var hosts []string
			for rep := 0; rep < replicas; rep++ {
				name := fmt.Sprintf("%s-%d-%d", prefix, sh, rep)
				k := knobs
				k.FractionsPerIteration = 1 + (knobs.FractionsPerIteration+sh+rep)%4
				s := simenv.NewStore(r.s, r.w, name, k, mode)
				if res := s.Start(bootTimeout); res != "loaded" {
					r.violate("startup", "store %s did not start: %s %s", name, res, s.Node.Note())
					return st
				}
				r.stores = append(r.stores, s)
				cl := r.net.Client("proxy", s)
				cl.InProcess = c.InProcess
				clients[name] = cl
				hosts = append(hosts, name)
			}
			st.Shards = append(st.Shards, hosts)
			st.Vers = append(st.Vers, "v")
		}
		return st
	}
	hotKnobs := c.Knobs
	if c.HotTotalSize > 0 {
		hotKnobs.TotalSize = c.HotTotalSize
	}
	hotMode := c.HotMode
	if hotMode == "" {
		hotMode = "cold"
	}
	hot := mk("hot", c.HotShards, c.HotReplicas, hotMode, hotKnobs)
	r.nHot = len(r.stores)
	coldKnobs := c.Knobs
	coldKnobs.TotalSize = 1 << 40
	cold := mk("cold", c.ColdShards, c.ColdReplicas, "cold", coldKnobs)
	if len(r.res.Violations) > 0 {
		return
	}
	r.hotSt, r.coldSt = hot, cold
	r.client = bulk.NewSeqDBClient(hot, cold, circuitbreaker.Config{RequestVolumeThreshold: 101, Timeout: 2 * time.Second}, clients)
	r.ing = search.NewIngestor(search.Config{HotStores: hot, ReadStores: cold, WriteStores: cold}, clients)

	for i := range c.Steps {
		st := &c.Steps[i]
		if len(r.res.Violations) > 0 {
			break
		}
		r.logf("step %d %s %d %s", i, st.Kind, st.Group, st.Label)
		var target *simenv.Store
		if len(r.stores) > 0 {
			target = r.stores[st.Group%len(r.stores)]
		}
		switch st.Kind {
		case "par":
			r.parF(st.Clients)
		case "sleep":
			r.s.SleepSim(time.Duration(st.Ms) * time.Millisecond)
		case "kill":
			r.noteMaturity()
			if target.Node.Alive() {
				target.KillProcess()
				r.res.Fired["store_killed"]++
			}
		case "powerloss":
			r.noteMaturity()
			if target.Node.Alive() {
				target.PowerLoss(st.ImageSeed, st.ImageMode)
				r.res.Fired["store_power_loss"]++
			}
		case "start":
			if !target.Node.Alive() || !target.Loaded {
				if res := target.Start(bootTimeout); res != "loaded" {
					r.violate("startup", "store %s did not restart: %s %s", target.Node.Name, res, target.Node.Note())
				}
			}
		case "partition":
			r.net.Partitioned[target.Node.Name] = true
			r.res.Fired["partition"]++
		case "heal":
			delete(r.net.Partitioned, target.Node.Name)
		case "heal_all":
			for k := range r.net.Partitioned {
				delete(r.net.Partitioned, k)
			}
			for i, s := range r.stores {
				if !s.Node.Alive() || !s.Loaded {
					if res := s.Start(bootTimeout); res != "loaded" {
						r.violate("startup", "store %s did not restart: %s %s", s.Node.Name, res, s.Node.Note())
					} else if r.seenMature[i] && s.FM != nil && !s.FM.Mature() {
						// A store is mature for good; it starts as a fresh, immature one only when it finds no fraction at
						// all, i.e. when retention had retired everything it held (a size limit below one fraction: the
						// misconfiguration the generators try to stay clear of, but a burst of bulks between two maintenance
						// passes can outgrow the limit). Such a store answers for ranges it no longer holds: completeness is
						// not judged any more in this run.
						r.forgotMaturity = true
						r.s.Probe("hot_store_restarted_empty_after_retention")
					}
				}
			}
		case "arm":
			r.w.Arm(st.Group)
		case "disarm":
			r.w.Disarm()
		case "dvalidate":
			r.validateDurable(st.Label)
		case "fvalidate":
			r.validateF(st.Label)
		case "hotrule":
			r.hotRule(st.Label, st.Group == 1)
		case "async_start":
			r.asyncStartF(st.Async)
		case "async_poll":
			r.asyncFetchF(st.Async, false)
		case "async_wait":
			r.asyncFetchF(st.Async, true)
		}
	}
}

// noteMaturity remembers which stores have been seen mature (retention has retired a fraction there).
func (r *clusterRunner) noteMaturity() {
	if r.seenMature == nil {
		r.seenMature = map[int]bool{}
	}
	for i, st := range r.stores {
		if st.Node.Alive() && st.Loaded && st.FM != nil && st.FM.Mature() {
			r.seenMature[i] = true
		}
	}
}

// trouble counts transport-level faults and unavailability seen so far.
func (r *clusterRunner) trouble() int {
	return r.net.Stats["fired_drop_request"] + r.net.Stats["fired_drop_reply"] + r.net.Stats["unavailable"] + r.net.Stats["died_in_call"]
}

func (r *clusterRunner) healthy() bool {
	if len(r.net.Partitioned) > 0 {
		return false
	}
	for _, s := range r.stores {
		if !s.Node.Alive() || !s.Loaded {
			return false
		}
	}
	return true
}

// parF: bulks through the proxy client; a failed bulk is not a violation here (stores may be down),
// its documents become "maybe present".
func (r *clusterRunner) parF(clients [][]Op) {
	var tasks []*verifsim.Task
	for ci, ops := range clients {
		ci, ops := ci, ops
		tasks = append(tasks, r.s.GoOn(nil, func() {
			for i := range ops {
				op := &ops[i]
				r.res.Ops++
				switch op.Kind {
				case "sleep":
					r.s.SleepSim(time.Duration(op.Ms) * time.Millisecond)
				case "bulk":
					docs, metas := simenv.BuildBulk(op.Docs)
					ctx, cancel := context.WithTimeout(context.Background(), consts.BulkTimeout)
					if op.CtxMs > 0 {
						cancel()
						ctx, cancel = context.WithTimeout(context.Background(), time.Duration(op.CtxMs)*time.Millisecond)
					} else if op.CtxMs < 0 {
						cancel() // the client went away before the bulk was sent
						r.res.Fired["bulk_with_finished_context"]++
					}
					// anything that went wrong anywhere while this bulk was under way excuses its failure (other
					// clients' calls share the stores): lost requests/replies, a store that died or was unreachable
					troubleBefore := r.trouble()
					err := r.client.StoreDocuments(ctx, len(op.Docs), docs, metas)
					cancel()
					r.logf("c%d bulk#%d (%d docs) -> %v", ci, op.Bulk, len(op.Docs), err)
					if err != nil {
						// (a breaker that opened during earlier trouble stays open for its sleep window)
						if r.healthy() && r.trouble() == troubleBefore && !strings.Contains(err.Error(), "circuit is open") && ctx.Err() == nil && op.CtxMs == 0 {
							r.violate("api_error", "StoreDocuments failed although every store is up and reachable: %v", err)
							return
						}
						r.res.Fired["bulk_failed"]++
						for _, d := range op.Docs {
							if r.corpus.Docs[d.ID()] == nil {
								r.maybe[d.ID()] = d
							}
						}
						continue
					}
					for _, d := range op.Docs {
						r.corpus.Add(d)
						delete(r.maybe, d.ID())
					}
					r.acked = append(r.acked, op.Docs)
				}
			}
		}))
	}
	for _, t := range tasks {
		if res := r.s.WaitTask(t, nil, 6*time.Hour); res != "done" {
			r.violate("hang", "client did not finish (%s)\n%s", res, r.s.DumpTasks())
			return
		}
	}
}

// validateF: searches through the proxy while stores may be down. An answer without error and without
// the partial flag must be complete and correct; a flagged answer must be sound; with every store up and
// reachable the answer must be complete and unflagged.
func (r *clusterRunner) validateF(label string) {
	healthy := r.healthy()
	// an acknowledged bulk is on disk; it becomes searchable when the index workers are through with it
	for _, s := range r.stores {
		if s.Node.Alive() && s.Loaded {
			if res := s.WaitIdle(opTimeout); res != "done" {
				r.violate("hang", "WaitIdle on %s: %s", s.Node.Name, res)
				return
			}
		}
	}
	r.layoutFingerprint()
	battery := append([]*Search(nil), r.c.Battery...)
	battery = append(battery, &Search{Q: &model.Q{Op: "all"}, From: 0, To: math.MaxInt64, Size: 100000, Desc: true, WithTotal: true})
	for qi, s := range battery {
		fetch := qi%2 == 0
		qpr, docs, _, err := r.ing.Search(context.Background(), toProxyReq(s, 0, 100000, fetch), querytracer.New(false, ""))
		partial := errors.Is(err, consts.ErrPartialResponse)
		if err != nil && !partial {
			r.res.Fired["search_error"]++
			if errors.Is(err, consts.ErrIngestorQueryWantsOldData) && r.c.ColdShards == 0 {
				continue // a hot store declares the range too old and there is no long-term tier to ask: an error is the honest answer
			}
			if healthy {
				r.violate("spurious_error", "%s: proxy search %q [%d,%d] failed although every store is up and reachable: %v", label, s.Q.SeqQL(), s.From, s.To, err)
				return
			}
			continue
		}
		if partial {
			r.res.Fired["search_partial"]++
			if healthy {
				r.violate("false_partial", "%s: proxy search %q is flagged partial although every store is up and reachable: %v", label, s.Q.SeqQL(), err)
				return
			}
		}
		// soundness of every listed id; completeness unless flagged
		want := r.corpus.Matching(s.Q, s.From, s.To, s.Desc)
		wi := 0
		var prev seq.ID
		for i, id := range qpr.IDs {
			mid := model.ID{MID: uint64(id.ID.MID), RID: uint64(id.ID.RID)}
			if i > 0 && id.ID == prev {
				r.violate("search_result", "%s: proxy search %q lists %s twice", label, s.Q.SeqQL(), mid)
				return
			}
			prev = id.ID
			d := r.corpus.Docs[mid]
			if d == nil {
				d = r.maybe[mid]
				if d == nil {
					r.violate("unknown_id", "%s: proxy search %q returned %s, which was never submitted", label, s.Q.SeqQL(), mid)
					return
				}
			}
			if !s.Q.Match(d) || d.MID < s.From || d.MID > s.To {
				r.violate("search_wrong_doc", "%s: proxy search %q [%d,%d] returned %s which does not match", label, s.Q.SeqQL(), s.From, s.To, mid)
				return
			}
			if r.corpus.Docs[mid] == nil {
				continue // a document of a bulk that was not acknowledged: may be there
			}
			if partial {
				continue
			}
			if wi >= len(want) || want[wi].ID() != mid {
				exp := "nothing more"
				if wi < len(want) {
					exp = want[wi].ID().String()
				}
				r.violate("silent_partial", "%s: proxy search %q [%d,%d] desc=%v is presented as complete but position %d is %s where the acknowledged documents have %s (hot tier %s, %d/%d stores up, fractions of hot-0-0: %v)",
					label, s.Q.SeqQL(), s.From, s.To, s.Desc, i, mid, exp, r.c.HotMode, r.upCount(), len(r.stores), r.stores[0].Fracs())
				return
			}
			wi++
		}
		if !partial && wi != len(want) && !r.forgotMaturity {
			r.violate("silent_partial", "%s: proxy search %q [%d,%d] desc=%v is presented as complete but lists %d of %d acknowledged matching documents; first missing %s (hot tier %s, %d/%d stores up, partitioned %v, fractions of hot-0-0: %v)",
				label, s.Q.SeqQL(), s.From, s.To, s.Desc, wi, len(want), want[wi].ID(), r.c.HotMode, r.upCount(), len(r.stores), r.net.Partitioned, r.stores[0].Fracs())
			return
		}
		if fetch {
			for i, id := range qpr.IDs {
				d, derr := docs.Next()
				if derr != nil {
					if healthy {
						r.violate("docs_stream", "%s: docs stream ended at %d of %d: %v", label, i, len(qpr.IDs), derr)
						return
					}
					break
				}
				mid := model.ID{MID: uint64(id.ID.MID), RID: uint64(id.ID.RID)}
				wd := r.corpus.Docs[mid]
				if wd == nil {
					wd = r.maybe[mid]
				}
				if d.ID != id.ID || (len(d.Data) > 0 && string(d.Data) != string(wd.Body())) {
					r.violate("docs_stream", "%s: document %d of the stream is %s %q, expected the document of id %s or an empty entry", label, i, d.ID, clip(d.Data), id.ID)
					return
				}
				// (under retention the hot tier may retire the document's fraction between search and fetch)
				if len(d.Data) == 0 && healthy && r.c.HotTotalSize == 0 {
					r.violate("docs_stream", "%s: document %d (id %s) came back empty although every store is up and reachable", label, i, id.ID)
					return
				}
			}
			if healthy {
				if _, derr := docs.Next(); derr != io.EOF {
					r.violate("docs_stream", "%s: docs stream has more entries than ids", label)
					return
				}
			}
		}
	}
	r.logf("fvalidate %s ok: %d acknowledged docs, %d maybe, healthy=%v", label, len(r.corpus.Docs), len(r.maybe), healthy)
}

// validateDurable (real-store lane of C09): every store is up again. For every bulk the proxy's client
// acknowledged, some hot shard - and some long-term shard when that tier exists - must hold every
// document of the bulk, byte for byte, on each of its replicas.
func (r *clusterRunner) validateDurable(label string) {
	byName := map[string]*simenv.Store{}
	for _, s := range r.stores {
		byName[s.Node.Name] = s
		// on disk is not yet fetchable: wait until the index workers are through
		if s.Node.Alive() && s.Loaded {
			if res := s.WaitIdle(opTimeout); res != "done" {
				r.violate("hang", "WaitIdle on %s: %s", s.Node.Name, res)
				return
			}
		}
	}
	holds := func(host string, docs []*model.Doc) (bool, string) {
		st := byName[host]
		hits := make([]simenv.Hit, len(docs))
		for i, d := range docs {
			hits[i] = simenv.Hit{ID: seq.ID{MID: seq.MID(d.MID), RID: seq.RID(d.RID)}}
		}
		got, status, err := st.Fetch(opTimeout, hits, false)
		if status != "done" || err != nil {
			return false, fmt.Sprintf("%s: fetch %s %v", host, status, err)
		}
		for i, d := range docs {
			if i >= len(got) || got[i].Body == nil {
				return false, fmt.Sprintf("%s does not hold %s", host, d.ID())
			}
			if string(got[i].Body) != string(d.Body()) {
				return false, fmt.Sprintf("%s holds other bytes for %s", host, d.ID())
			}
		}
		return true, ""
	}
	tier := func(st *stores.Stores, docs []*model.Doc) (bool, []string) {
		if len(st.Shards) == 0 {
			return true, nil
		}
		var why []string
		for _, sh := range st.Shards {
			all := true
			for _, h := range sh {
				if ok, w := holds(h, docs); !ok {
					all = false
					why = append(why, w)
				}
			}
			if all {
				return true, nil
			}
		}
		return false, why
	}
	for bi, docs := range r.acked {
		if ok, why := tier(r.hotSt, docs); !ok {
			r.violate("ack_without_full_replica_set", "%s: acknowledged bulk %d (%d documents) is not held by every replica of any hot shard after all stores came back: %v", label, bi, len(docs), why)
			return
		}
		if ok, why := tier(r.coldSt, docs); !ok {
			r.violate("ack_without_full_replica_set", "%s: acknowledged bulk %d (%d documents) is not held by every replica of any long-term shard after all stores came back: %v", label, bi, len(docs), why)
			return
		}
	}
	r.logf("dvalidate %s ok: %d acknowledged bulks", label, len(r.acked))
}

func (r *clusterRunner) upCount() int {
	n := 0
	for _, s := range r.stores {
		if s.Node.Alive() && s.Loaded {
			n++
		}
	}
	return n
}

// hotRule: a mature hot store must refuse a search that starts before the creation of its oldest
// remaining fraction (so that the proxy goes to the long-term tier) and serve one that does not.
// justRestarted: the rule is asked right after a restart, possibly before the first maintenance pass of the new
// incarnation has published the oldest creation time: until then a mature store refuses every range, which is honest,
// so only the lower half of the rule is demanded.
func (r *clusterRunner) hotRule(label string, justRestarted bool) {
	if r.c.HotMode != "hot" {
		return
	}
	r.noteMaturity()
	for i := 0; i < r.nHot; i++ {
		st := r.stores[i]
		if !st.Node.Alive() || !st.Loaded || st.FM == nil || !st.FM.Mature() {
			continue
		}
		fr := st.Fracs()
		if len(fr) == 0 {
			continue
		}
		oldest := fr[0].CreatedMs
		for _, f := range fr {
			oldest = min(oldest, f.CreatedMs)
		}
		probe := func(from uint64) (pb.SearchErrorCode, bool) {
			res, status, err := st.Search(opTimeout, simenv.SearchReq{Query: "", From: from, To: math.MaxInt64, Size: 10, Desc: true})
			if status != "done" || err != nil {
				return 0, false
			}
			return res.Code, true
		}
		// the listing and the two searches are not atomic with respect to the maintenance loop: look again
		code1, ok1 := probe(oldest - 1)
		code2, ok2 := probe(oldest)
		fr2 := st.Fracs()
		if !ok1 || !ok2 || len(fr2) != len(fr) || fr2[0].Name != fr[0].Name {
			r.s.Probe("hot_rule_retry")
			continue
		}
		r.s.Probe("hot_rule_checked")
		if code1 != pb.SearchErrorCode_INGESTOR_QUERY_WANTS_OLD_DATA {
			r.violate("old_data_not_declared", "%s: mature hot store %s answers a search starting at %d with %v although its oldest fraction was created at %d (fractions %v)", label, st.Node.Name, oldest-1, code1, oldest, fr)
			return
		}
		if code2 == pb.SearchErrorCode_INGESTOR_QUERY_WANTS_OLD_DATA && !justRestarted {
			r.violate("old_data_declared_wrongly", "%s: mature hot store %s refuses a search starting at the creation time %d of its oldest fraction (fractions %v)", label, st.Node.Name, oldest, fr)
			return
		}
	}
}

// ---- asynchronous searches through the proxy -------------------------------------------------------

func (r *clusterRunner) asyncStartF(a *AsyncReq) {
	s := a.S
	order := seq.DocsOrderDesc
	if !s.Desc {
		order = seq.DocsOrderAsc
	}
	req := search.AsyncRequest{Query: s.Q.SeqQL(), From: time.UnixMilli(int64(s.From)), To: time.UnixMilli(int64(min(s.To, uint64(math.MaxInt64/2000000)))), Order: order, HistogramInterval: seq.MID(s.Interval)}
	fn := map[string]seq.AggFunc{"count": seq.AggFuncCount, "sum": seq.AggFuncSum, "min": seq.AggFuncMin, "max": seq.AggFuncMax, "avg": seq.AggFuncAvg, "quantile": seq.AggFuncQuantile, "unique": seq.AggFuncUnique}
	for _, ag := range s.Aggs {
		req.Aggregations = append(req.Aggregations, search.AggQuery{Field: ag.Field, GroupBy: ag.GroupBy, Func: fn[ag.Func], Quantiles: ag.Quantiles, Interval: seq.MID(ag.Interval)})
	}
	resp, err := r.ing.StartAsyncSearch(context.Background(), req)
	r.logf("async %s start -> %q %v", a.ID, resp.ID, err)
	if err != nil {
		if r.healthy() {
			r.violate("api_error", "StartAsyncSearch failed although every store is up and reachable: %v", err)
		}
		return
	}
	r.asyncIDs[a.ID] = resp.ID
}

// asyncFetchF fetches through the proxy. A response that says "done" without error must equal the
// model (the corpus does not change after the searches were started); with wait=true every store is
// up and the search must become done within one simulated hour.
func (r *clusterRunner) asyncFetchF(a *AsyncReq, wait bool) {
	id := r.asyncIDs[a.ID]
	if id == "" {
		return // never started (stores were down)
	}
	s := a.S
	deadline := time.Now().Add(time.Hour)
	for {
		resp, err := r.ing.FetchAsyncSearchResult(context.Background(), search.FetchAsyncSearchResultRequest{ID: id, Size: 100000})
		r.logf("async %s fetch -> done=%v ids=%d err=%v", a.ID, resp.Done, len(resp.QPR.IDs), err)
		if err != nil {
			if status.Code(err) == codes.NotFound && r.healthy() {
				r.violate("async_lost", "asynchronous search %s (%s) is unknown to the proxy although every store is up: %v", a.ID, id, err)
				return
			}
			if !wait {
				return
			}
		} else if resp.Done {
			r.res.Fired["async_done_seen"]++
			want := r.corpus.Matching(s.Q, s.From, s.To, s.Desc)
			if msg := compareIDs(resp.QPR.IDs, want); msg != "" {
				r.violate("async_result", "asynchronous search %s %q is reported done (healthy=%v, %d/%d stores up) but: %s", a.ID, s.Q.SeqQL(), r.healthy(), r.upCount(), len(r.stores), msg)
				return
			}
			if s.Interval > 0 {
				wh := model.Hist(want, s.Interval)
				for k, v := range wh {
					if resp.QPR.Histogram[seq.MID(k)] != v {
						r.violate("async_result", "asynchronous search %s %q done: histogram bucket %d holds %d, model %d", a.ID, s.Q.SeqQL(), k, resp.QPR.Histogram[seq.MID(k)], v)
						return
					}
				}
			}
			if len(s.Aggs) > 0 && len(resp.QPR.Aggs) == len(s.Aggs) {
				for i, ag := range s.Aggs {
					if msg := checkQPRAgg(ag, &resp.QPR.Aggs[i], want); msg != "" {
						r.violate("async_result", "asynchronous search %s %q done: agg %+v: %s", a.ID, s.Q.SeqQL(), ag, msg)
						return
					}
				}
			}
			return
		} else if !wait {
			return
		}
		if time.Now().After(deadline) {
			r.violate("async_not_done", "asynchronous search %s is not done one simulated hour after every store came back\n%s", a.ID, r.s.DumpTasks())
			return
		}
		r.s.SleepSim(500 * time.Millisecond)
	}
}

// ---- generators ------------------------------------------------------------------------------------

// GenClusterF builds a faulty-cluster case for a profile.
func GenClusterF(profile, property string, seed uint64, tier Tier) *ClusterCase {
	g := newGen(seed, profile)
	c := &ClusterCase{Property: property, Seed: seed, Profile: profile}
	c.Knobs = g.knobs()
	c.Knobs.TotalSize = 1 << 40
	c.Knobs.StepCostNs = 0
	c.Knobs.SyncLatencyUs = 0
	c.Knobs.PStmt = 0
	c.MaxLatencyMs = []int{0, 5, 50}[g.r.Intn(3)]
	switch profile {
	case "cluster-c09":
		genClusterC09(g, c)
	case "cluster-c19":
		genClusterC19(g, c)
	default:
		genClusterC16(g, c)
	}
	return c
}

// lowClock is a lower bound of the simulated clock known to the generator (boot sleeps and explicit sleeps
// only add to it): documents stamped at or before it are never "in the future" when they are ingested.
func genClusterC16(g *gen, c *ClusterCase) {
	c.HotShards, c.HotReplicas = g.r.Range(1, 2), g.r.Range(1, 2)
	if g.r.Bool(0.8) {
		c.ColdShards, c.ColdReplicas = g.r.Range(1, 2), g.r.Range(1, 2)
	}
	c.Knobs.FracSize = uint64(g.r.Range(900, 3000))
	c.Knobs.MaintenanceDelayMs = []int{50, 200, 1000}[g.r.Intn(3)]
	if g.r.Bool(0.7) {
		c.HotMode = "hot"
		c.HotTotalSize = 2*c.Knobs.FracSize + uint64(g.r.Range(9000, 20000))
	} else {
		c.HotMode = "cold"
	}
	g.smallDocs = true
	nstores := c.HotShards*c.HotReplicas + c.ColdShards*c.ColdReplicas
	lowClock := uint64(BaseMs) + 20*uint64(nstores) // every store boot takes at least 20 simulated ms
	rounds := g.r.Range(2, 4)
	for round := 0; round < rounds; round++ {
		// fault phase of the round: some stores go away before or during ingestion
		var down []int
		if g.r.Bool(0.5) {
			for k := 0; k < g.r.Range(1, 2); k++ {
				i := g.r.Intn(nstores)
				switch g.r.Intn(3) {
				case 0:
					c.Steps = append(c.Steps, Step{Kind: "kill", Group: i})
				case 1:
					c.Steps = append(c.Steps, Step{Kind: "powerloss", Group: i, ImageSeed: g.r.Uint64(), ImageMode: []string{"", "all", "none"}[g.r.Intn(3)]})
				default:
					c.Steps = append(c.Steps, Step{Kind: "partition", Group: i})
				}
				down = append(down, i)
			}
		}
		nclients := g.r.Range(1, 2)
		var clients [][]Op
		for ci := 0; ci < nclients; ci++ {
			var ops []Op
			for i := 0; i < g.r.Range(3, 9); i++ {
				g.nextBulk++
				op := Op{Kind: "bulk", Bulk: g.nextBulk}
				for n := 0; n < g.r.Range(1, 6); n++ {
					op.Docs = append(op.Docs, g.doc(lowClock-uint64(g.r.Intn(3000))))
				}
				ops = append(ops, op)
			}
			clients = append(clients, ops)
		}
		c.Steps = append(c.Steps, Step{Kind: "par", Clients: clients})
		if g.r.Bool(0.7) {
			ms := g.r.Range(1, 3) * c.Knobs.MaintenanceDelayMs
			c.Steps = append(c.Steps, Step{Kind: "sleep", Ms: int64(ms)})
			lowClock += uint64(ms)
		}
		c.Steps = append(c.Steps, Step{Kind: "hotrule", Label: fmt.Sprintf("round%d", round)}, Step{Kind: "fvalidate", Label: fmt.Sprintf("round%d-faulty", round)})
		if len(down) > 0 {
			c.Steps = append(c.Steps, Step{Kind: "heal_all"})
			lowClock += 20
			// a request that overtakes the first maintenance pass of the restarted stores
			c.Steps = append(c.Steps, Step{Kind: "hotrule", Group: 1, Label: fmt.Sprintf("round%d-restarted", round)})
		}
		ms := g.r.Range(0, 2) * c.Knobs.MaintenanceDelayMs
		c.Steps = append(c.Steps, Step{Kind: "sleep", Ms: int64(ms + 1)}, Step{Kind: "hotrule", Label: fmt.Sprintf("round%d-healed", round)}, Step{Kind: "fvalidate", Label: fmt.Sprintf("round%d-healed", round)})
		lowClock += uint64(ms + 1)
	}
	g.nowMs = lowClock
	for i := 0; i < 6; i++ {
		s := g.search(false)
		s.Size = 100000
		switch g.r.Intn(4) {
		case 0:
			s.From, s.To = 0, math.MaxInt64
		case 1:
			s.From, s.To = lowClock-uint64(g.r.Intn(4000)), math.MaxInt64
		}
		c.Battery = append(c.Battery, s)
	}
}

func genClusterC19(g *gen, c *ClusterCase) {
	c.HotShards, c.HotReplicas = g.r.Range(1, 3), g.r.Range(1, 2)
	c.HotMode = "cold"
	c.Knobs.FracSize = uint64(g.r.Range(900, 4000))
	if g.r.Bool(0.3) {
		c.Knobs.FracSize = 1 << 30
	}
	nstores := c.HotShards * c.HotReplicas
	var clients [][]Op
	for ci := 0; ci < g.r.Range(1, 2); ci++ {
		var ops []Op
		for i := 0; i < g.r.Range(3, 10); i++ {
			ops = append(ops, g.bulk(g.bulkSize()))
		}
		clients = append(clients, ops)
	}
	c.Steps = append(c.Steps, Step{Kind: "par", Clients: clients}, Step{Kind: "fvalidate", Label: "ingested"})
	var reqs []*AsyncReq
	for i := 0; i < g.r.Range(1, 2); i++ {
		s := g.search(true)
		s.Size = 100000
		s.WithTotal = false
		reqs = append(reqs, &AsyncReq{ID: fmt.Sprintf("a%d", i), S: s})
	}
	for _, a := range reqs {
		c.Steps = append(c.Steps, Step{Kind: "async_start", Async: a})
	}
	// stores go away and come back while the searches run and are polled
	for k := 0; k < g.r.Range(0, 3); k++ {
		i := g.r.Intn(nstores)
		switch g.r.Intn(4) {
		case 0:
			c.Steps = append(c.Steps, Step{Kind: "kill", Group: i})
		case 1:
			c.Steps = append(c.Steps, Step{Kind: "powerloss", Group: i, ImageSeed: g.r.Uint64(), ImageMode: []string{"", "all", "none"}[g.r.Intn(3)]})
		case 2:
			c.Steps = append(c.Steps, Step{Kind: "partition", Group: i})
		default:
			c.Steps = append(c.Steps, Step{Kind: "sleep", Ms: int64(g.r.Range(1, 300))})
		}
		for _, a := range reqs {
			if g.r.Bool(0.7) {
				c.Steps = append(c.Steps, Step{Kind: "async_poll", Async: a})
			}
		}
		if g.r.Bool(0.4) {
			c.Steps = append(c.Steps, Step{Kind: "start", Group: i}, Step{Kind: "heal", Group: i})
		}
	}
	c.Steps = append(c.Steps, Step{Kind: "heal_all"})
	for _, a := range reqs {
		c.Steps = append(c.Steps, Step{Kind: "async_wait", Async: a})
	}
	sort.Slice(reqs, func(i, j int) bool { return reqs[i].ID < reqs[j].ID })
}

// genClusterC09: bulks through the real client while stores crash in the middle of their writes (planned
// disk faults per node), replies get lost and stores are partitioned; afterwards everything comes back and
// every acknowledged bulk must sit on a full replica set of real stores.
func genClusterC09(g *gen, c *ClusterCase) {
	c.HotShards, c.HotReplicas = g.r.Range(1, 3), g.r.Range(1, 3)
	if g.r.Bool(0.5) {
		c.ColdShards, c.ColdReplicas = g.r.Range(1, 2), g.r.Range(1, 2)
	}
	// a fifth of the cases: single mode (the store is called in process, no transport looks at the context)
	// with requests whose context is finished before or while the bulk is sent
	c.InProcess = g.r.Bool(0.2)
	if c.InProcess {
		c.HotShards, c.HotReplicas, c.ColdShards, c.ColdReplicas = 1, g.r.Range(1, 2), 0, 0
	}
	c.HotMode = "cold"
	c.Knobs.FracSize = uint64(g.r.Range(900, 4000))
	if g.r.Bool(0.4) {
		c.Knobs.FracSize = 1 << 30
	}
	var hosts []string
	for sh := 0; sh < c.HotShards; sh++ {
		for rep := 0; rep < c.HotReplicas; rep++ {
			hosts = append(hosts, fmt.Sprintf("hot-%d-%d", sh, rep))
		}
	}
	for sh := 0; sh < c.ColdShards; sh++ {
		for rep := 0; rep < c.ColdReplicas; rep++ {
			hosts = append(hosts, fmt.Sprintf("cold-%d-%d", sh, rep))
		}
	}
	c.NetFaults = map[string]string{}
	rounds := g.r.Range(1, 3)
	for round := 1; round <= rounds; round++ {
		for k := 0; k < g.r.Range(0, 2); k++ {
			f := &simos.Fault{Group: round, Node: hosts[g.r.Intn(len(hosts))], ImageSeed: g.r.Uint64(), Action: "crash", After: g.r.Bool(0.4)}
			if g.r.Bool(0.25) {
				f.Action = "exit"
			}
			f.Op = []string{"write", "write", "sync", "mut"}[g.r.Intn(4)]
			f.PathSuffix = []string{".docs", ".meta", ""}[g.r.Intn(3)]
			f.Nth = g.r.Range(1, 12)
			f.ImageMode = []string{"", "", "all", "none"}[g.r.Intn(4)]
			c.Faults = append(c.Faults, f)
		}
		for k := 0; k < g.r.Range(0, 3); k++ {
			c.NetFaults[fmt.Sprintf("%s/Bulk/%d", hosts[g.r.Intn(len(hosts))], g.r.Range(1, 12))] = []string{"drop_reply", "drop_request"}[g.r.Intn(2)]
		}
		if g.r.Bool(0.3) {
			c.Steps = append(c.Steps, Step{Kind: "partition", Group: g.r.Intn(len(hosts))})
		}
		c.Steps = append(c.Steps, Step{Kind: "arm", Group: round})
		var clients [][]Op
		for ci := 0; ci < g.r.Range(1, 3); ci++ {
			var ops []Op
			for i := 0; i < g.r.Range(2, 7); i++ {
				b := g.bulk(g.bulkSize())
				if c.InProcess && g.r.Bool(0.5) {
					b.CtxMs = []int{-1, -1, 1, 5}[g.r.Intn(4)]
				}
				ops = append(ops, b)
				if g.r.Bool(0.2) {
					ops = append(ops, Op{Kind: "sleep", Ms: g.r.Range(1, 300)})
				}
			}
			clients = append(clients, ops)
		}
		c.Steps = append(c.Steps, Step{Kind: "par", Clients: clients}, Step{Kind: "disarm"})
		if g.r.Bool(0.3) {
			c.Steps = append(c.Steps, Step{Kind: "fvalidate", Label: fmt.Sprintf("round%d-faulty", round)})
		}
		c.Steps = append(c.Steps, Step{Kind: "heal_all"}, Step{Kind: "dvalidate", Label: fmt.Sprintf("round%d", round)}, Step{Kind: "fvalidate", Label: fmt.Sprintf("round%d-healed", round)})
		g.nowMs += 2000
	}
	for i := 0; i < 4; i++ {
		s := g.search(false)
		s.Size = 100000
		c.Battery = append(c.Battery, s)
	}
}

package storesim

import (
	"sort"
	"fmt"
	"math"

	"verif/harness/model"
	"verif/harness/simenv"

	"github.com/ozontech/seq-db/verifsim"
	"github.com/ozontech/seq-db/verifsim/simos"
)

func seqStep(ops ...Op) Step { return Step{Kind: "par", Clients: [][]Op{ops}} }

// ---- C07: schedules of writers, readers and the maintenance loop ---------------------------------

func genC07(seed uint64, tier Tier) *Case {
	g := newGen(seed, "c07")
	c := &Case{Property: "C07", Profile: "c07", Seed: seed}
	c.Knobs = g.knobs()
	c.Knobs.FracSize = uint64(g.r.Range(1200, 5000)) // many rotations
	c.Knobs.TotalSize = 1 << 40
	c.Knobs.MaintenanceDelayMs = []int{20, 50, 200}[g.r.Intn(3)]
	c.Knobs.CacheSize = []uint64{4 << 10, 16 << 10, 1 << 20}[g.r.Intn(3)]
	c.Knobs.CacheCleanupDelayMs = []int{10, 50, 200}[g.r.Intn(3)]
	c.Knobs.PSync = []float64{0.1, 0.3, 0.6}[g.r.Intn(3)]
	c.Knobs.PStmt = []float64{0, 0.005, 0.03, 0.1}[g.r.Intn(4)]
	c.Knobs.SyncLatencyUs = []int{0, 200, 3000}[g.r.Intn(3)]
	c.Oracles.NoErrors = true
	retention := g.r.Bool(0.3)
	if retention {
		// retention on: weak presence oracle. The limit must stay above anything the fraction under the
		// writers can reach between two maintenance passes (retiring the writer's fraction is a
		// misconfiguration): small uniform-ish bulks, every bulk costs simulated time (fsync latency),
		// maintenance every 20 ms.
		c.Oracles.Retention = true
		c.Mode = "cold"
		g.smallDocs = true
		c.Knobs.SyncLatencyUs = []int{1000, 3000}[g.r.Intn(2)]
		c.Knobs.MaintenanceDelayMs = 20
		c.Knobs.StepCostNs = 0
		c.Knobs.TotalSize = c.Knobs.FracSize + uint64(g.r.Range(60000, 90000))
	}
	c.Steps = append(c.Steps, Step{Kind: "start"})
	writers, readers := g.r.Range(1, 4), g.r.Range(1, 4)
	// retry runs: writers re-send some bulks; a repeat may land in a later fraction, so only listing and
	// fetch are compared at quiescence in these runs (C17 decides the counts)
	retries := !retention && g.r.Bool(0.15)
	if retries {
		c.Oracles.IDsOnly = true
	}
	scale := 1
	if tier.Thorough {
		scale = 2
	}
	var clients [][]Op
	for w := 0; w < writers; w++ {
		var ops []Op
		n := g.r.Range(3, 8*scale)
		if retention {
			n = g.r.Range(20, 40*scale)
		}
		for i := 0; i < n; i++ {
			if retention {
				ops = append(ops, g.bulk(g.r.Range(1, 6)))
				continue
			}
			ops = append(ops, g.bulk(g.bulkSize()))
			if retries && g.r.Bool(0.3) {
				// the writer did not see the acknowledgement in time and sends the same bulk again
				g.nextBulk++
				ops = append(ops, Op{Kind: "bulk", Bulk: g.nextBulk, Docs: ops[len(ops)-1].Docs})
			}
			if g.r.Bool(0.3) {
				ops = append(ops, Op{Kind: "sleep", Ms: g.r.Range(1, 120)})
			}
		}
		clients = append(clients, ops)
	}
	// a quarter of the cases: some of the readers' searches are built to fail inside the fractions (error on one
	// fraction, cancellation of its siblings); few search workers, so that anything such a request keeps is missed soon
	rf := verifsim.NewSplitMix(seed ^ 0xfa11).Split("c07-failing")
	failing := rf.Bool(0.25)
	if failing {
		c.Knobs.SearchWorkers = rf.Range(2, 3)
	}
	for rd := 0; rd < readers; rd++ {
		var ops []Op
		n := g.r.Range(3, 10*scale)
		for i := 0; i < n; i++ {
			op := g.readerOp()
			if failing && op.Kind == "search" && rf.Bool(0.4) {
				op.S = &Search{Q: &model.Q{Op: "all"}, From: 0, To: math.MaxInt64, Size: 10, Desc: true, Fails: true,
					Aggs: []simenv.AggReq{{Func: "sum", Field: "svc"}}}
			}
			ops = append(ops, op)
			if g.r.Bool(0.4) {
				ops = append(ops, Op{Kind: "sleep", Ms: g.r.Range(1, 150)})
			}
		}
		clients = append(clients, ops)
	}
	// interleave client order so that task ids do not always favour writers
	for i := len(clients) - 1; i > 0; i-- {
		j := g.r.Intn(i + 1)
		clients[i], clients[j] = clients[j], clients[i]
	}
	c.Steps = append(c.Steps, Step{Kind: "par", Clients: clients})
	c.Steps = append(c.Steps, Step{Kind: "validate", Label: "writers-idle"})
	if g.r.Bool(0.5) {
		c.Steps = append(c.Steps, Step{Kind: "sleep", Ms: int64(g.r.Range(200, 3000))}, Step{Kind: "validate", Label: "after-maintenance"})
	}
	if g.r.Bool(0.3) {
		// what the concurrent history (several seals in flight) wrote is read back from the files
		c.Steps = append(c.Steps, Step{Kind: "stop"}, Step{Kind: "start"}, Step{Kind: "validate", Label: "reloaded"})
	}
	c.Battery = g.battery(5)
	return c
}

// ---- C05, store-level sub-profile: chunked searches racing with retention ------------------------
//
// "Whatever the fractions-per-iteration setting, a search returns the same ordered top IDs" also has to
// hold for the fractions that are there during the whole search while others are retired next to it.
// One store, fractions whose time ranges all overlap, retention running continuously, searches cut into
// chunks of one or two fractions that take simulated time (so that maintenance passes fall between two
// chunks), readers alternating complete listings (which teach the harness which fraction holds what)
// with small limits on broad queries. Oracle: soundness of every listing plus the stable-fraction rule
// (documents of fractions sealed before the search and still served after it are listed unless the
// listing is full and ends before them).
func genC05Retention(seed uint64, tier Tier) *Case {
	g := newGen(seed, "c05r")
	c := &Case{Property: "C05", Profile: "c05-retention", Seed: seed}
	c.Knobs = g.knobs()
	g.smallDocs = true
	c.Knobs.FracSize = uint64(g.r.Range(1200, 3000))
	// Retention has to run all the time, yet never reach the fraction under the writers (that would be a
	// misconfiguration): writers pause longer than one maintenance period after every bulk, a bulk is at most
	// 4 small documents, so between two passes at most two bulks (< 8 KB with meta) arrive; the limit leaves
	// room for the active fraction, the one being sealed and a few sealed ones.
	c.Knobs.TotalSize = c.Knobs.FracSize + uint64(g.r.Range(25000, 40000))
	c.Knobs.MaintenanceDelayMs = 20
	c.Knobs.SyncLatencyUs = []int{1000, 3000}[g.r.Intn(2)]
	c.Knobs.StepCostNs = []int{20000, 100000, 300000}[g.r.Intn(3)]
	c.Knobs.FractionsPerIteration = g.r.Range(1, 2)
	c.Knobs.SearchWorkers = g.r.Range(1, 2)
	c.Knobs.PStmt = []float64{0, 0.005, 0.03}[g.r.Intn(3)]
	c.Oracles.NoErrors = true
	c.Oracles.Retention = true
	c.Mode = "cold"
	c.Steps = append(c.Steps, Step{Kind: "start"})
	scale := 1
	if tier.Thorough {
		scale = 2
	}
	broad := func() *model.Q {
		switch g.r.Intn(4) {
		case 0:
			return &model.Q{Op: "exists", F: "svc"}
		case 1:
			return &model.Q{Op: "not", Kids: []*model.Q{{Op: "term", F: "k0", V: vocab[g.r.Intn(len(vocab))]}}}
		case 2:
			return &model.Q{Op: "or", Kids: []*model.Q{{Op: "exists", F: "num"}, {Op: "exists", F: "k1"}}}
		default:
			return &model.Q{Op: "term", F: "svc", V: []string{"alpha", "beta", "gamma"}[g.r.Intn(3)]}
		}
	}
	var clients [][]Op
	if g.r.Bool(0.35) {
		// tight: the limit holds one to three full fractions plus one bulk and seals are slow (10 ms per
		// fsync), so retention reaches fractions that are still being sealed - the hand-over object
		// (proxyFrac) is retired while searches hold it in their snapshot. One writer, uniform bulks of
		// about 1.2 KB on disk, each taking at least one fsync: at most one bulk arrives between two
		// maintenance passes, so the fraction under the writer stays below the limit.
		c.Knobs.SyncLatencyUs = 10000
		c.Knobs.ZstdLevel = 1
		c.Knobs.SkipSortDocs = false
		c.Knobs.FracSize = 3000
		c.Knobs.TotalSize = uint64(8000 + 7400*g.r.Intn(3))
		c.Knobs.StepCostNs = []int{0, 20000, 100000}[g.r.Intn(3)]
		var ops []Op
		for i, n := 0, g.r.Range(40, 70*scale); i < n; i++ {
			op := Op{Kind: "bulk"}
			g.nextBulk++
			op.Bulk = g.nextBulk
			for k := 0; k < 3; k++ {
				d := g.doc(g.nowMs + uint64(g.r.Intn(2000)))
				d.Size = 310
				d.Toks = []model.Tok{{F: "k0", V: vocab[g.r.Intn(len(vocab))]}, {F: "svc", V: "alpha"}}
				op.Docs = append(op.Docs, d)
			}
			ops = append(ops, op)
		}
		clients = append(clients, ops)
	} else {
		for w, writers := 0, g.r.Range(1, 2); w < writers; w++ {
			var ops []Op
			for i, n := 0, g.r.Range(50, 80*scale); i < n; i++ {
				ops = append(ops, g.bulk(g.r.Range(1, 4)), Op{Kind: "sleep", Ms: g.r.Range(25, 40)})
			}
			clients = append(clients, ops)
		}
	}
	for rd, readers := 0, g.r.Range(2, 3); rd < readers; rd++ {
		var ops []Op
		for i, n := 0, g.r.Range(30, 60*scale); i < n; i++ {
			s := &Search{Q: broad(), From: 0, To: math.MaxInt64, Size: 100000, Desc: g.r.Bool(0.6)}
			if i%3 != 0 {
				s.Size = g.r.Range(1, 8)
			}
			ops = append(ops, Op{Kind: "search", S: s})
			if g.r.Bool(0.5) {
				ops = append(ops, Op{Kind: "sleep", Ms: g.r.Range(1, 40)})
			}
		}
		clients = append(clients, ops)
	}
	c.Steps = append(c.Steps, Step{Kind: "par", Clients: clients})
	c.Steps = append(c.Steps, Step{Kind: "validate", Label: "writers-idle"})
	c.Battery = g.battery(3)
	return c
}

// ---- C08: sealing under crashes and I/O errors ---------------------------------------------------

func genC08(seed uint64, tier Tier) *Case {
	// consecutive seeds walk the fault position k over the same corpus (enumeration of k)
	const span = 64
	base, k := seed/span, int(seed%span)+1
	g := newGen(base, "c08")
	c := &Case{Property: "C08", Profile: "c08", Seed: seed}
	c.Knobs = g.knobs()
	c.Knobs.TotalSize = 1 << 40
	c.Knobs.FracSize = 1 << 30
	c.Knobs.StepCostNs = 0
	if base%8 == 5 {
		return genC08StopAfterRotation(g, c, k)
	}
	sizeTriggered := g.r.Bool(0.4)
	c.Steps = append(c.Steps, Step{Kind: "start"})
	nb := g.r.Range(2, 6)
	if tier.Thorough && g.r.Bool(0.3) {
		nb = g.r.Range(6, 20)
	}
	var ops []Op
	for i := 0; i < nb; i++ {
		ops = append(ops, g.bulk(g.bulkSize()))
	}
	c.Steps = append(c.Steps, seqStep(ops...), Step{Kind: "wait_idle"})
	// fault plan
	errMode := g.r.Bool(0.5)
	f := &simos.Fault{Group: 1, Nth: k, ImageSeed: g.r.Uint64() ^ uint64(k)*0x9e3779b97f4a7c15}
	if errMode {
		c.Oracles.TolerateDeath = true
		f.Action = []string{"eio", "enospc", "short"}[g.r.Intn(3)]
		f.Op = []string{"write", "write", "write", "sync", "rename", "create"}[g.r.Intn(6)]
		f.PathSuffix = []string{"._index", "._sdocs", "ndex", "docs"}[g.r.Intn(4)]
		if f.Op == "rename" {
			f.PathSuffix = []string{".index", ".sdocs"}[g.r.Intn(2)]
		}
		if f.Op != "write" {
			f.Nth = (k-1)%3 + 1
		}
	} else {
		f.Action = "crash"
		if g.r.Bool(0.25) {
			f.Action = "exit"
		}
		f.Op = "mut"
		f.After = g.r.Bool(0.3)
		f.ImageMode = []string{"", "", "all", "none"}[g.r.Intn(4)]
	}
	c.Faults = append(c.Faults, f)
	c.Steps = append(c.Steps, Step{Kind: "arm", Group: 1})
	if sizeTriggered {
		// let the maintenance loop rotate and seal: shrink the limit by restarting with a small FracSize is not
		// possible mid-run, so the size-triggered path is driven by a FracSize below the corpus size from the start
		c.Knobs.FracSize = 600
		c.Steps = append(c.Steps, Step{Kind: "sleep", Ms: int64(4 * c.Knobs.MaintenanceDelayMs)})
	} else if g.r.Bool(0.3) {
		c.Knobs.FracSize = 1000 // seal on graceful stop (fraction larger than 20% of FracSize)
		if g.r.Bool(0.5) {
			// ... while clients keep sending: the seal on exit must not publish less than was acknowledged
			var late [][]Op
			for ci := 0; ci < g.r.Range(1, 3); ci++ {
				var ops []Op
				for i := 0; i < g.r.Range(2, 6); i++ {
					ops = append(ops, g.bulk(g.r.Range(1, 4)))
				}
				late = append(late, ops)
			}
			late = append(late, []Op{{Kind: "sleep", Ms: g.r.Range(0, 3)}, {Kind: "stop"}})
			c.Steps = append(c.Steps, Step{Kind: "par", Clients: late})
			// a bulk that is refused by the stopping store is retried by the store in a busy loop until the
			// request's deadline: simulated time has to pass while it spins
			c.Knobs.StepCostNs = 100000
		} else {
			c.Steps = append(c.Steps, Step{Kind: "stop"})
		}
	} else {
		c.Steps = append(c.Steps, Step{Kind: "seal"})
	}
	c.Steps = append(c.Steps, Step{Kind: "disarm"})
	// if the process survived (error swallowed, or the fault position was never reached): the published
	// fraction must be right at once, before any restart
	c.Steps = append(c.Steps, Step{Kind: "validate", Label: "after-seal"})
	switch g.r.Intn(4) {
	case 0:
		c.Steps = append(c.Steps, Step{Kind: "powerloss", ImageSeed: g.r.Uint64(), ImageMode: []string{"", "all", "none"}[g.r.Intn(3)]})
	case 1:
		c.Steps = append(c.Steps, Step{Kind: "kill"})
	case 2:
		c.Steps = append(c.Steps, Step{Kind: "stop"})
	}
	c.Steps = append(c.Steps, Step{Kind: "start"}, Step{Kind: "validate", Label: "after-restart"})
	if g.r.Bool(0.4) {
		// one more round: ingest, seal again, restart
		c.Steps = append(c.Steps, seqStep(g.bulk(g.bulkSize())), Step{Kind: "seal"}, Step{Kind: "stop"}, Step{Kind: "start"}, Step{Kind: "validate", Label: "second-restart"})
	}
	c.Battery = g.battery(3)
	return c
}

// genC08StopAfterRotation: a graceful stop (which seals what is worth sealing) arrives while a big bulk is still
// on its way through the index workers of a fraction that has just been rotated out. No fault is planned: the
// store has to stop, come back and serve everything. k only varies the timing.
func genC08StopAfterRotation(g *gen, c *Case, k int) *Case {
	c.Profile = "c08-stop-after-rotation"
	c.Knobs.StepCostNs = []int{100000, 300000}[g.r.Intn(2)] // indexing takes simulated time
	c.Knobs.MaintenanceDelayMs = 20
	c.Knobs.FracSize = 600
	c.Knobs.SyncLatencyUs = []int{0, 200}[g.r.Intn(2)]
	g.smallDocs = true
	c.Steps = append(c.Steps, Step{Kind: "start"})
	for i := 0; i < g.r.Range(0, 2); i++ {
		c.Steps = append(c.Steps, seqStep(g.bulk(g.r.Range(1, 4))))
	}
	c.Steps = append(c.Steps, Step{Kind: "wait_idle"},
		seqStep(g.bulk(g.r.Range(20, 45))),
		Step{Kind: "sleep", Ms: int64(5 + (k*3)%70)},
		Step{Kind: "stop"}, Step{Kind: "start"}, Step{Kind: "validate", Label: "after-restart"})
	c.Battery = g.battery(3)
	return c
}

// ---- C15: start-up, retention and deletion under crashes ------------------------------------------

func genC15(seed uint64, tier Tier) *Case {
	g := newGen(seed, "c15")
	c := &Case{Property: "C15", Profile: "c15", Seed: seed}
	c.Knobs = g.knobs()
	// Retention must never reach the fraction that is being written (TotalSize well above what the
	// active and the rotating fraction can hold): retiring the fraction under the writer is a
	// misconfiguration, not one of the histories the property quantifies over.
	g.smallDocs = true
	c.Knobs.FracSize = uint64(g.r.Range(500, 2500))
	c.Knobs.TotalSize = 5*c.Knobs.FracSize + uint64(g.r.Range(8000, 20000))
	if g.r.Bool(0.4) {
		// tight: retention reaches the fraction that is still being sealed (but never the one being written:
		// a round appends at most 8 bulks of at most 6 small documents between two maintenance ticks)
		c.Knobs.TotalSize = c.Knobs.FracSize + uint64(g.r.Range(30000, 40000))
	}
	c.Knobs.MaintenanceDelayMs = []int{20, 50, 200}[g.r.Intn(3)]
	// tight-sealing (a fifth of the runs): the limit holds exactly one full fraction plus one bulk, seals are
	// slow (10 ms per fsync, maintenance every 20 ms) and bulks are uniform, so the fraction that has just been
	// rotated out is retired while it is still being sealed (proxyFrac.Suicide waits for the seal, then
	// deletes a fraction that owns .docs and .sdocs at once). At most one bulk fits between two maintenance
	// passes, so the fraction under the writer never exceeds the limit.
	veryTight := g.r.Bool(0.2)
	if veryTight {
		c.Knobs.SyncLatencyUs = 10000
		c.Knobs.MaintenanceDelayMs = 20
		c.Knobs.StepCostNs = 0
		c.Knobs.ZstdLevel = 1
		c.Knobs.SkipSortDocs = false
		c.Knobs.FracSize = 3000  // rotation looks at the docs file only; docs+meta is about 1.6x that
		c.Knobs.TotalSize = 8000 // retention counts docs+meta+index: a fraction is rotated out at about 7.2 KB (six uniform bulks), the limit holds it but not it plus one more bulk
	}
	c.Oracles.Retention = true
	c.Mode = "cold" // a mature hot store refuses searches that reach below its oldest fraction; retention itself is the same
	if !veryTight && g.r.Bool(0.12) {
		return genC15Overlap(g, c)
	}
	if !veryTight && g.r.Bool(0.12) {
		return genC15SlowReader(g, c)
	}
	c.Steps = append(c.Steps, Step{Kind: "start"})
	rounds := g.r.Range(2, 5)
	for round := 1; round <= rounds; round++ {
		nb := g.r.Range(2, 8)
		armed := g.r.Bool(0.8)
		if armed {
			f := &simos.Fault{Group: round, ImageSeed: g.r.Uint64(), After: g.r.Bool(0.4), Action: "crash"}
			if g.r.Bool(0.3) {
				f.Action = "exit"
			}
			f.Op = []string{"create", "rename", "remove", "remove", "rename", "dirsync", "mut"}[g.r.Intn(7)]
			f.Nth = g.r.Range(1, 6)
			if f.Op == "mut" {
				f.Nth = g.r.Range(1, 40)
			}
			f.ImageMode = []string{"", "", "all", "none"}[g.r.Intn(4)]
			if g.r.Bool(0.12) {
				// rewriting .frac-cache fails (disk error, disk full): the file is an optimisation, the store goes on
				f.Action = []string{"eio", "enospc", "short"}[g.r.Intn(3)]
				f.Op = []string{"write", "create", "rename", "sync"}[g.r.Intn(4)]
				f.PathSuffix, f.After = []string{".frac-cache", ""}[0], false
				if f.Op == "write" || f.Op == "create" || f.Op == "sync" {
					f.PathSuffix = "" // the temporary name carries a counter: match by operation count instead
					f.Op = "mut"
					f.Nth = g.r.Range(1, 30)
					f.Action = "crash" // (only the rename target is matched by name; other failing writes stay crashes)
				}
				f.Nth = max(1, f.Nth)
			}
			c.Faults = append(c.Faults, f)
		}
		c.Steps = append(c.Steps, Step{Kind: "arm", Group: round})
		for i := 0; i < nb; i++ {
			if veryTight {
				// a burst of uniform bulks (about 1.2 KB each on disk) that fills several fractions; in half of the
				// bursts a reader runs next to the writer, so that data providers of the fraction that is being
				// handed over (and retired) are held while seal, release and deletion interleave
				var burst, reader []Op
				for k := 0; k < g.r.Range(6, 14); k++ {
					op := Op{Kind: "bulk"}
					g.nextBulk++
					op.Bulk = g.nextBulk
					for n := 0; n < 3; n++ {
						d := g.doc(g.nowMs + uint64(g.r.Intn(2000)))
						d.Size = 310
						d.Toks = []model.Tok{{F: "k0", V: vocab[g.r.Intn(len(vocab))]}, {F: "svc", V: "alpha"}}
						op.Docs = append(op.Docs, d)
					}
					burst = append(burst, op)
					reader = append(reader, g.readerOp(), Op{Kind: "sleep", Ms: g.r.Range(1, 15)})
				}
				if g.r.Bool(0.5) {
					c.Steps = append(c.Steps, Step{Kind: "par", Clients: [][]Op{burst, reader}})
				} else {
					for _, op := range burst {
						c.Steps = append(c.Steps, seqStep(op))
					}
				}
				c.Steps = append(c.Steps, Step{Kind: "sleep", Ms: 100}, Step{Kind: "validate", Label: fmt.Sprintf("r%d.b%d", round, i)})
				continue
			}
			c.Steps = append(c.Steps, seqStep(g.bulk(g.r.Range(1, 6))))
			if g.r.Bool(0.6) {
				// observe which fraction serves what, and give maintenance (rotate/seal/retention) time to run
				c.Steps = append(c.Steps, Step{Kind: "sleep", Ms: int64(g.r.Range(1, 3) * c.Knobs.MaintenanceDelayMs)}, Step{Kind: "validate", Label: fmt.Sprintf("r%d.b%d", round, i)})
			}
		}
		c.Steps = append(c.Steps, Step{Kind: "disarm"})
		switch g.r.Intn(5) {
		case 0:
			c.Steps = append(c.Steps, Step{Kind: "stop"})
		case 1:
			c.Steps = append(c.Steps, Step{Kind: "kill"})
		case 2, 3:
			c.Steps = append(c.Steps, Step{Kind: "powerloss", ImageSeed: g.r.Uint64(), ImageMode: []string{"", "", "all", "none"}[g.r.Intn(4)]})
		}
		if g.r.Bool(0.3) {
			c.Steps = append(c.Steps, Step{Kind: "tamper", Tamper: []string{"delete", "garble", "truncate", "stale", "moved", "moved"}[g.r.Intn(6)]})
		}
		if g.r.Bool(0.15) {
			c.Steps = append(c.Steps, Step{Kind: "start_cancelled", Ms: int64(g.r.Range(1, 10))})
		}
		c.Steps = append(c.Steps, Step{Kind: "start"}, Step{Kind: "validate", Label: fmt.Sprintf("round%d", round)})
	}
	return c
}

// genC15Overlap is the sub-profile "two seals in flight": seals run in their own goroutines and nothing
// orders them, so a big fraction can still be sealing when the small one rotated out after it is already
// published. A crash at that moment leaves an older fraction in its active form next to a newer sealed
// one; after the restart retention must still take the oldest first.
func genC15Overlap(g *gen, c *Case) *Case {
	c.Profile = "c15-overlap"
	c.Knobs.StepCostNs = []int{100000, 300000}[g.r.Intn(2)] // sealing costs simulated time in proportion to its work
	c.Knobs.SyncLatencyUs = []int{0, 200}[g.r.Intn(2)]
	c.Knobs.MaintenanceDelayMs = 20
	c.Knobs.FracSize = uint64(g.r.Range(800, 1500))
	c.Knobs.TotalSize = uint64(g.r.Range(14000, 24000))
	g.smallDocs = true
	c.Steps = append(c.Steps, Step{Kind: "start"})
	if g.r.Bool(0.5) {
		c.Steps = append(c.Steps, seqStep(g.bulk(g.r.Range(1, 4))), Step{Kind: "sleep", Ms: 60}, Step{Kind: "validate", Label: "warm"})
	}
	// the planned crash: right after (or before) the first .index published from now on
	f := &simos.Fault{Group: 1, ImageSeed: g.r.Uint64(), After: g.r.Bool(0.8), Action: []string{"crash", "exit"}[g.r.Intn(2)], Op: "rename", PathSuffix: ".index", Nth: 1}
	f.ImageMode = []string{"", "all", "all"}[g.r.Intn(3)]
	c.Faults = append(c.Faults, f)
	big := g.bulk(g.r.Range(25, 45))
	small := g.bulk(g.r.Range(6, 9))
	c.Steps = append(c.Steps,
		seqStep(big), Step{Kind: "sleep", Ms: 21}, // a maintenance pass rotates the big fraction out and starts its seal
		Step{Kind: "arm", Group: 1},
		seqStep(small), Step{Kind: "sleep", Ms: int64(g.r.Range(21, 400))}, // the next pass rotates the small one out
		Step{Kind: "disarm"})
	if g.r.Bool(0.3) {
		c.Steps = append(c.Steps, Step{Kind: "kill"})
	}
	c.Steps = append(c.Steps, Step{Kind: "start"}, Step{Kind: "validate", Label: "restarted"})
	// ingestion goes on until retention has to take fractions
	for i, n := 0, g.r.Range(4, 10); i < n; i++ {
		c.Steps = append(c.Steps, seqStep(g.bulk(g.r.Range(3, 8))), Step{Kind: "sleep", Ms: 45}, Step{Kind: "validate", Label: fmt.Sprintf("more%d", i)})
	}
	if g.r.Bool(0.5) {
		c.Steps = append(c.Steps, Step{Kind: "stop"}, Step{Kind: "start"}, Step{Kind: "validate", Label: "again"})
	}
	return c
}

// genC15SlowReader is the sub-profile "a search holds the oldest fraction while retention goes on": searches
// take simulated time (step cost), retention has to retire a fraction on every other maintenance pass, and the
// deletion of a fraction waits for its readers. The planned crash falls on one of the renames/removes of the
// deletions; afterwards the fractions that are left must still be the newest ones.
func genC15SlowReader(g *gen, c *Case) *Case {
	c.Profile = "c15-slow-reader"
	c.Knobs.StepCostNs = []int{100000, 300000}[g.r.Intn(2)]
	c.Knobs.SyncLatencyUs = []int{0, 200}[g.r.Intn(2)]
	c.Knobs.MaintenanceDelayMs = 20
	c.Knobs.FracSize = uint64(g.r.Range(2500, 5000)) // tens of documents per fraction: searching one takes several passes
	c.Knobs.TotalSize = 4*c.Knobs.FracSize + uint64(g.r.Range(12000, 20000))
	c.Knobs.SearchWorkers = 1
	c.Knobs.FractionsPerIteration = 1
	g.smallDocs = true
	c.Steps = append(c.Steps, Step{Kind: "start"})
	// fill up to the limit, observing which fraction holds what
	for i, n := 0, g.r.Range(10, 16); i < n; i++ {
		c.Steps = append(c.Steps, seqStep(g.bulk(g.r.Range(4, 6))), Step{Kind: "sleep", Ms: 25})
		if i%3 == 2 {
			c.Steps = append(c.Steps, Step{Kind: "sleep", Ms: 60}, Step{Kind: "validate", Label: fmt.Sprintf("fill%d", i)})
		}
	}
	f := &simos.Fault{Group: 1, ImageSeed: g.r.Uint64(), After: g.r.Bool(0.6), Action: []string{"crash", "exit"}[g.r.Intn(2)], Op: []string{"rename", "rename", "remove"}[g.r.Intn(3)], PathSuffix: ".del", Nth: g.r.Range(1, 6)}
	if f.Op == "remove" {
		f.PathSuffix = ""
	}
	f.ImageMode = []string{"", "all", "all"}[g.r.Intn(3)]
	c.Faults = append(c.Faults, f)
	var writer, writer2, reader []Op
	for i, n := 0, g.r.Range(14, 28); i < n; i++ {
		writer = append(writer, g.bulk(g.r.Range(4, 6)), Op{Kind: "sleep", Ms: g.r.Range(22, 30)})
		writer2 = append(writer2, g.bulk(g.r.Range(4, 6)), Op{Kind: "sleep", Ms: g.r.Range(22, 30)})
	}
	for i, n := 0, g.r.Range(6, 14); i < n; i++ {
		// ascending order starts with the oldest fraction; every document matches
		reader = append(reader, Op{Kind: "search", S: &Search{Q: &model.Q{Op: "all"}, From: 0, To: math.MaxInt64, Size: 100000, Desc: g.r.Bool(0.3), WithTotal: true, Interval: 1,
			Aggs: []simenv.AggReq{{Func: "quantile", Field: "num", GroupBy: "svc", Quantiles: []float64{0.5}}, {Func: "count", GroupBy: "k0"}, {Func: "unique", GroupBy: "k1"}}}})
	}
	c.Steps = append(c.Steps, Step{Kind: "arm", Group: 1}, Step{Kind: "par", Clients: [][]Op{writer, writer2, reader, reader, reader}}, Step{Kind: "disarm"})
	if g.r.Bool(0.3) {
		c.Steps = append(c.Steps, Step{Kind: "kill"})
	}
	c.Steps = append(c.Steps, Step{Kind: "start"}, Step{Kind: "validate", Label: "restarted"})
	for i, n := 0, g.r.Range(1, 4); i < n; i++ {
		c.Steps = append(c.Steps, seqStep(g.bulk(g.r.Range(3, 6))), Step{Kind: "sleep", Ms: 45}, Step{Kind: "validate", Label: fmt.Sprintf("more%d", i)})
	}
	return c
}

// ---- C17: re-delivery of bulks --------------------------------------------------------------------

func genC17(seed uint64, tier Tier) *Case {
	g := newGen(seed, "c17")
	c := &Case{Property: "C17", Profile: "c17", Seed: seed}
	c.Knobs = g.knobs()
	c.Knobs.TotalSize = 1 << 40
	sameFraction := g.r.Bool(0.65)
	if sameFraction {
		c.Knobs.FracSize = 1 << 30
		c.Oracles.CountsStrict = true
	} else {
		c.Knobs.FracSize = uint64(g.r.Range(1000, 4000)) // repeats may land in another fraction: listing/fetch only
		c.Oracles.IDsOnly = true
	}
	c.Oracles.NoErrors = true
	g.nested = g.r.Bool(0.35)
	c.Steps = append(c.Steps, Step{Kind: "start"})
	var delivered []Op
	redeliver := func() Op {
		g.nextBulk++
		op := Op{Kind: "bulk", Bulk: g.nextBulk}
		src := delivered[g.r.Intn(len(delivered))]
		seen := map[model.ID]bool{}
		add := func(d *model.Doc) {
			if !seen[d.ID()] {
				seen[d.ID()] = true
				op.Docs = append(op.Docs, d)
			}
		}
		switch g.r.Intn(4) {
		case 0: // whole-bulk repeat
			for _, d := range src.Docs {
				add(d)
			}
		case 1: // partial overlap with new documents, positions differ
			for _, d := range src.Docs {
				if g.r.Bool(0.5) {
					add(d)
				}
				if g.r.Bool(0.4) {
					add(g.doc(g.nowMs + uint64(g.r.Intn(2000))))
				}
			}
			if len(op.Docs) == 0 {
				add(src.Docs[0])
			}
		case 2: // documents of several earlier bulks
			for i := 0; i < 3; i++ {
				b := delivered[g.r.Intn(len(delivered))]
				add(b.Docs[g.r.Intn(len(b.Docs))])
			}
		default: // new documents first, then repeats
			for i := 0; i < g.r.Range(1, 4); i++ {
				add(g.doc(g.nowMs + uint64(g.r.Intn(2000))))
			}
			for _, d := range src.Docs {
				if g.r.Bool(0.7) {
					add(d)
				}
			}
		}
		return op
	}
	rounds := g.r.Range(1, 3)
	for round := 1; round <= rounds; round++ {
		nclients := g.r.Range(1, 3)
		clients := make([][]Op, nclients)
		n := g.r.Range(3, 9)
		for i := 0; i < n; i++ {
			ci := g.r.Intn(nclients)
			if len(delivered) == 0 || g.r.Bool(0.45) {
				op := g.bulk(g.bulkSize())
				delivered = append(delivered, op)
				clients[ci] = append(clients[ci], op)
				if g.r.Bool(0.25) && nclients > 1 {
					// concurrent repeat: the same bulk delivered by two clients at once
					g.nextBulk++
					cp := Op{Kind: "bulk", Bulk: g.nextBulk, Docs: op.Docs}
					clients[(ci+1)%nclients] = append(clients[(ci+1)%nclients], cp)
				}
			} else {
				clients[ci] = append(clients[ci], redeliver())
			}
			if g.r.Bool(0.2) {
				clients[ci] = append(clients[ci], g.readerOp())
			}
		}
		var nonEmpty [][]Op
		for _, cl := range clients {
			if len(cl) > 0 {
				nonEmpty = append(nonEmpty, cl)
			}
		}
		c.Steps = append(c.Steps, Step{Kind: "par", Clients: nonEmpty}, Step{Kind: "validate", Label: fmt.Sprintf("active%d", round)})
		// when all copies must stay in one fraction the only seal is the one after the last delivery
		if (!sameFraction && g.r.Bool(0.6)) || (sameFraction && round == rounds && g.r.Bool(0.8)) {
			c.Steps = append(c.Steps, Step{Kind: "seal"}, Step{Kind: "validate", Label: fmt.Sprintf("sealed%d", round)})
		}
		if sameFraction && round < rounds {
			continue // a restart of a large active fraction would seal it on stop
		}
		switch g.r.Intn(3) {
		case 0:
			c.Steps = append(c.Steps, Step{Kind: "stop"}, Step{Kind: "start"}, Step{Kind: "validate", Label: fmt.Sprintf("restarted%d", round)})
		case 1:
			c.Steps = append(c.Steps, Step{Kind: "kill"}, Step{Kind: "start"}, Step{Kind: "validate", Label: fmt.Sprintf("replayed%d", round)})
		}
	}
	c.Battery = g.battery(5)
	return c
}

// ---- C19: asynchronous search across restarts -----------------------------------------------------

// genC19Retention is the sub-profile "queued searches under retention" (every sixth seed of C19): the store runs
// with a size limit, several asynchronous searches are queued behind one worker, each step costs simulated time, and
// a writer goes on ingesting, so that fractions a queued search has listed are retired before it reaches them. Such a
// fraction is skipped ("deleted since"). Weak oracle, as everywhere under retention: the request stays known, ends
// within the hour, lists only documents that were submitted and match, and the process lives.
func genC19Retention(seed uint64, tier Tier) *Case {
	g := newGen(seed, "c19r")
	c := &Case{Property: "C19", Profile: "c19-retention", Seed: seed}
	c.Knobs = g.knobs()
	c.Knobs.FracSize = uint64(g.r.Range(1200, 4000))
	// (the limit stays above anything the fraction under the writer can reach between two maintenance passes: small
	// bulks that cost simulated time, maintenance every 20 ms; the recipe of the C07 retention runs)
	c.Knobs.TotalSize = c.Knobs.FracSize + uint64(g.r.Range(25000, 50000))
	c.Knobs.MaintenanceDelayMs = 20
	c.Knobs.SyncLatencyUs = []int{1000, 3000}[g.r.Intn(2)]
	c.Knobs.StepCostNs = []int{20000, 100000}[g.r.Intn(2)]
	c.Knobs.AsyncParallelism = 1
	c.Knobs.AggLimits = false
	c.Mode = "cold"
	c.Oracles.Retention = true
	g.smallDocs = true
	bulks := func(n int) Step {
		var ops []Op
		for i := 0; i < n; i++ {
			ops = append(ops, g.bulk(g.r.Range(1, 6)))
		}
		return seqStep(ops...)
	}
	c.Steps = append(c.Steps, Step{Kind: "start"}, bulks(g.r.Range(25, 45)), Step{Kind: "wait_idle"})
	var reqs []*AsyncReq
	for i := 0; i < g.r.Range(2, 4); i++ {
		s := g.search(true)
		s.Size = math.MaxInt32
		s.WithTotal = false
		s.From, s.To = 0, math.MaxInt64
		a, b := g.r.Uint64(), g.r.Uint64()
		id := fmt.Sprintf("%08x-%04x-4%03x-%04x-%012x", uint32(a>>32), uint16(a>>16), uint16(a)&0xfff, 0x8000|uint16(b>>48)&0x3fff, b&0xffffffffffff)
		reqs = append(reqs, &AsyncReq{ID: id, S: s})
	}
	for _, a := range reqs {
		c.Steps = append(c.Steps, Step{Kind: "async_start", Async: a})
	}
	// the writer goes on: retention retires what the queued searches have listed
	c.Steps = append(c.Steps, bulks(g.r.Range(40, 90)))
	switch g.r.Intn(4) {
	case 0:
		c.Steps = append(c.Steps, Step{Kind: "kill"}, Step{Kind: "start"})
	case 1:
		c.Steps = append(c.Steps, Step{Kind: "stop"}, Step{Kind: "start"})
	}
	for _, a := range reqs {
		c.Steps = append(c.Steps, Step{Kind: "async_wait", Async: a})
	}
	c.Steps = append(c.Steps, Step{Kind: "validate", Label: "after-searches"})
	c.Battery = g.battery(3)
	return c
}

func genC19(seed uint64, tier Tier) *Case {
	if seed%6 == 5 {
		return genC19Retention(seed, tier)
	}
	g := newGen(seed, "c19")
	c := &Case{Property: "C19", Profile: "c19", Seed: seed}
	c.Knobs = g.knobs()
	c.Knobs.TotalSize = 1 << 40
	c.Knobs.FracSize = 1 << 30
	g.oddTokens = g.r.Bool(0.3)
	// late arrivals: a sealed fraction then carries a per-minute distribution, so a range that falls into a gap
	// between its documents intersects the fraction while it is active (borders only) and not once it is sealed
	g.lateDocs = g.r.Bool(0.4)
	c.Steps = append(c.Steps, Step{Kind: "start"})
	nfrac := g.r.Range(2, 5)
	// a bulk that was retried across a rotation: the same documents sit in two fractions (the merge of the
	// per-fraction results has to drop the repetitions from the listing and from the histogram; aggregations
	// are not corrected and not compared then)
	redeliver := g.r.Bool(0.25)
	var first Op
	for i := 0; i < nfrac; i++ {
		var ops []Op
		for b := 0; b < g.r.Range(1, 3); b++ {
			ops = append(ops, g.bulk(g.bulkSize()))
		}
		if i == 0 {
			first = ops[0]
		} else if redeliver && (i == nfrac-1 || g.r.Bool(0.4)) {
			redeliver = false
			c.Oracles.NoAggs = true
			g.nextBulk++
			ops = append(ops, Op{Kind: "bulk", Bulk: g.nextBulk, Docs: first.Docs})
		}
		c.Steps = append(c.Steps, seqStep(ops...))
		if i < nfrac-1 || g.r.Bool(0.3) {
			c.Steps = append(c.Steps, Step{Kind: "seal"})
		}
		g.nowMs += 3000
	}
	c.Steps = append(c.Steps, Step{Kind: "wait_idle"})
	if g.r.Bool(0.3) {
		c.Steps = append(c.Steps, Step{Kind: "stop"}, Step{Kind: "start"})
	}
	nsearch := g.r.Range(1, 3)
	var reqs []*AsyncReq
	for i := 0; i < nsearch; i++ {
		s := g.search(true)
		s.Size = math.MaxInt32
		s.WithTotal = false
		if g.lateDocs && g.r.Bool(0.4) {
			// a range inside the widest gap between two documents (minutes away from both)
			ms := make([]uint64, 0, len(g.docs))
			for _, d := range g.docs {
				ms = append(ms, d.MID)
			}
			sort.Slice(ms, func(i, j int) bool { return ms[i] < ms[j] })
			best := 0
			for k := 1; k < len(ms); k++ {
				if ms[k]-ms[k-1] > ms[best+1]-ms[best] {
					best = k - 1
				}
			}
			if len(ms) > 1 && ms[best+1]-ms[best] > 10*60000 {
				s.From, s.To = ms[best]+3*60000, ms[best+1]-3*60000
			}
		}
		// ids as the proxy makes them: random version-4 UUIDs
		a, b := g.r.Uint64(), g.r.Uint64()
		id := fmt.Sprintf("%08x-%04x-4%03x-%04x-%012x", uint32(a>>32), uint16(a>>16), uint16(a)&0xfff, 0x8000|uint16(b>>48)&0x3fff, b&0xffffffffffff)
		reqs = append(reqs, &AsyncReq{ID: id, S: s})
	}
	armed := g.r.Bool(0.8)
	if armed {
		f := &simos.Fault{Group: 1, ImageSeed: g.r.Uint64(), After: g.r.Bool(0.5), Action: "crash"}
		if g.r.Bool(0.3) {
			f.Action = "exit"
		}
		switch g.r.Intn(4) {
		case 0:
			f.Op, f.PathSuffix = "rename", ".qpr"
		case 1:
			f.Op, f.PathSuffix = "mut", ""
		case 2:
			f.Op, f.PathSuffix = "write", ".tmp"
		default:
			f.Op, f.PathSuffix = "rename", ".info"
		}
		f.Nth = g.r.Range(1, nfrac+2)
		if f.Op == "mut" {
			f.Nth = g.r.Range(1, 8*nfrac)
		}
		f.ImageMode = []string{"", "", "all", "none"}[g.r.Intn(4)]
		if g.r.Bool(0.2) && f.Op != "mut" {
			// the write itself fails: the searcher gives up the process (Fatal), which is a crash like any other
			f.Action = []string{"eio", "enospc"}[g.r.Intn(2)]
			c.Oracles.TolerateDeath = true
		}
		c.Faults = append(c.Faults, f)
		c.Steps = append(c.Steps, Step{Kind: "arm", Group: 1})
	} else if g.r.Bool(0.7) {
		// no crash planned: one read of an index file fails while the searches work through the fractions; the
		// search of that fraction fails (the store may give up and has to be started again), the request must not
		// be reported done without that fraction
		armed = true
		c.Faults = append(c.Faults, &simos.Fault{Group: 1, Op: "read", Action: "eio", PathSuffix: ".index", Nth: g.r.Range(1, 4*nfrac)})
		c.Steps = append(c.Steps, Step{Kind: "arm", Group: 1})
	}
	for _, a := range reqs {
		c.Steps = append(c.Steps, Step{Kind: "async_start", Async: a})
	}
	if g.r.Bool(0.4) {
		// ingestion goes on while the searches are queued or running: a rotation, then documents that go
		// into a fraction that did not exist when the searches were started
		g.nowMs += 1000
		if g.r.Bool(0.8) {
			c.Steps = append(c.Steps, Step{Kind: "seal"})
		}
		var ops []Op
		for b := 0; b < g.r.Range(1, 3); b++ {
			ops = append(ops, g.bulk(g.bulkSize()))
		}
		c.Steps = append(c.Steps, seqStep(ops...))
	}
	if g.r.Bool(0.5) {
		c.Steps = append(c.Steps, Step{Kind: "sleep", Ms: int64(g.r.Range(1, 500))})
	}
	if armed {
		c.Steps = append(c.Steps, Step{Kind: "disarm"})
	}
	switch g.r.Intn(4) {
	case 0:
		c.Steps = append(c.Steps, Step{Kind: "powerloss", ImageSeed: g.r.Uint64(), ImageMode: []string{"", "all", "none"}[g.r.Intn(3)]})
	case 1:
		c.Steps = append(c.Steps, Step{Kind: "kill"})
	case 2:
		c.Steps = append(c.Steps, Step{Kind: "stop"})
	}
	c.Steps = append(c.Steps, Step{Kind: "start"})
	for _, a := range reqs {
		c.Steps = append(c.Steps, Step{Kind: "async_wait", Async: a})
	}
	return c
}

// ---- C03: answers do not depend on fraction form ----------------------------------------------------

func genC03(seed uint64, tier Tier) *Case {
	g := newGen(seed, "c03")
	c := &Case{Property: "C03", Profile: "c03", Seed: seed}
	c.Knobs = g.knobs()
	c.Knobs.TotalSize = 1 << 40
	c.Knobs.FracSize = 1 << 30
	c.Knobs.CacheSize = []uint64{4 << 10, 8 << 10, 64 << 10, 256 << 20}[g.r.Intn(4)]
	c.Knobs.CacheCleanupDelayMs = []int{5, 20, 200}[g.r.Intn(3)]
	c.Knobs.CacheGCDelayMs = []int{10, 50, 500}[g.r.Intn(3)]
	c.Oracles.NoErrors = true
	c.Oracles.CountsStrict = true
	g.lateDocs = g.r.Bool(0.4)
	c.Steps = append(c.Steps, Step{Kind: "start"})
	nb := g.r.Range(2, 8)
	if tier.Thorough {
		nb = g.r.Range(4, 30)
	}
	var ops []Op
	for i := 0; i < nb; i++ {
		n := g.bulkSize()
		if tier.Thorough && g.r.Bool(0.2) {
			n = g.r.Range(40, 120)
		}
		ops = append(ops, g.bulk(n))
	}
	if g.r.Bool(0.5) {
		// searches next to the ingestion: readers, index workers and background merge workers share the
		// per-token posting lists that the sealer reads afterwards
		var rops []Op
		for i := 0; i < 2*nb; i++ {
			rops = append(rops, Op{Kind: "search", S: g.search(false)})
		}
		c.Steps = append(c.Steps, Step{Kind: "par", Clients: [][]Op{ops, rops}}, Step{Kind: "wait_idle"})
	} else {
		c.Steps = append(c.Steps, seqStep(ops...))
	}
	c.Steps = append(c.Steps, Step{Kind: "validate", Label: "active"})
	c.Steps = append(c.Steps, Step{Kind: "seal"}, Step{Kind: "validate", Label: "sealed-preloaded"})
	if g.r.Bool(0.6) {
		// a second fraction is ingested and sealed in the same process: the first one, still in its freshly
		// sealed (preloaded) form, must keep answering the same (shared pools/buffers between seals)
		var more []Op
		for i := 0; i < g.r.Range(1, 4); i++ {
			more = append(more, g.bulk(g.bulkSize()))
		}
		c.Steps = append(c.Steps, seqStep(more...), Step{Kind: "validate", Label: "sealed+active"}, Step{Kind: "seal"}, Step{Kind: "validate", Label: "two-sealed-preloaded"})
		c.Oracles.CountsStrict = true
	}
	// readers overlapping cache-cleaner ticks
	var readers [][]Op
	for r := 0; r < g.r.Range(1, 3); r++ {
		var rops []Op
		for i := 0; i < g.r.Range(2, 6); i++ {
			rops = append(rops, g.readerOp(), Op{Kind: "sleep", Ms: g.r.Range(1, 3*c.Knobs.CacheCleanupDelayMs)})
		}
		readers = append(readers, rops)
	}
	c.Steps = append(c.Steps, Step{Kind: "par", Clients: readers})
	c.Steps = append(c.Steps, Step{Kind: "stop"}, Step{Kind: "start"}, Step{Kind: "validate", Label: "sealed-loaded"})
	c.Steps = append(c.Steps, Step{Kind: "sleep", Ms: int64(5 * c.Knobs.CacheCleanupDelayMs)}, Step{Kind: "par", Clients: readers}, Step{Kind: "validate", Label: "after-eviction"})
	if g.r.Bool(0.25) {
		// one transient read error on the index file while the caches are being refilled: the request that hits it
		// may fail; what it loaded (or failed to load) must not stay in the caches as a wrong answer
		// (or on the documents file: a fetch fails and the store goes on; what the failed request gave back, and how
		// often, shows in the requests after it)
		suffix := []string{".index", ".index", ".sdocs"}[g.r.Intn(3)]
		if suffix == ".sdocs" && c.Knobs.SkipSortDocs {
			suffix = ".docs"
		}
		c.Faults = append(c.Faults, &simos.Fault{Group: 7, Op: "read", Action: "eio", PathSuffix: suffix, Nth: g.r.Range(1, 12)})
		c.Steps = append(c.Steps, Step{Kind: "stop"}, Step{Kind: "start"}, Step{Kind: "arm", Group: 7},
			// the battery itself runs into the error: a request may fail, an answer that is given has to be complete
			Step{Kind: "validate", Label: "during-read-error"},
			Step{Kind: "par", Clients: readers}, Step{Kind: "disarm"},
			Step{Kind: "start"}, // (if the store gave up on the read error)
			Step{Kind: "validate", Label: "after-read-error"})
	}
	c.Battery = g.battery(10)
	return c
}

// ---- C14: time-range pruning against the simulated clock -----------------------------------------

func genC14(seed uint64, tier Tier) *Case {
	g := newGen(seed, "c14")
	c := &Case{Property: "C14", Profile: "c14", Seed: seed}
	c.Knobs = g.knobs()
	c.Knobs.TotalSize = 1 << 40
	c.Knobs.FracSize = 1 << 30
	c.Knobs.MaintenanceDelayMs = 600000 // clock jumps of hours must not cost millions of ticks
	c.Knobs.CacheCleanupDelayMs = 600000
	c.Knobs.CacheGCDelayMs = 600000
	c.Knobs.StepCostNs = 0
	c.Oracles.NoErrors = true
	c.Steps = append(c.Steps, Step{Kind: "start"})
	const hour = 3600 * 1000
	nfrac := g.r.Range(1, 4)
	for fi := 0; fi < nfrac; fi++ {
		var ops []Op
		for b := 0; b < g.r.Range(1, 4); b++ {
			g.nextBulk++
			op := Op{Kind: "bulk", Bulk: g.nextBulk}
			n := g.r.Range(1, 12)
			for i := 0; i < n; i++ {
				var ts uint64
				switch g.r.Intn(8) {
				case 0:
					ts = g.nowMs - uint64(g.r.Range(24*hour, 72*hour)) // beyond the 24h clip
				case 1, 2:
					ts = g.nowMs - uint64(g.r.Range(11*60000, 23*hour)) // inside the distribution window
				case 3:
					ts = g.nowMs - uint64(g.r.Range(9*60000, 11*60000)) // around the 10 minute rule
				case 4:
					ts = g.nowMs + uint64(g.r.Range(1, 3*hour)) // future
				case 5:
					ts = (g.nowMs-uint64(g.r.Range(1, 20*hour)))/60000*60000 + uint64(g.r.Intn(2))*59999 // on bucket borders
				default:
					ts = g.nowMs - uint64(g.r.Intn(5000))
				}
				if len(op.Docs) > 0 && g.r.Bool(0.25) {
					// same millisecond as the previous document: runs of equal timestamps cross ID-block
					// and bucket borders
					ts = op.Docs[len(op.Docs)-1].MID
				}
				if fi > 0 && len(g.docs) > 0 && g.r.Bool(0.15) {
					// same millisecond as a document of an earlier fraction, preferably the one that defines a
					// border (From/To) of it: fractions then tie on their borders
					pick := g.docs[g.r.Intn(len(g.docs))]
					if g.r.Bool(0.6) {
						for _, d := range g.docs {
							if (g.r.Bool(0.5) && d.MID > pick.MID) || d.MID < pick.MID && g.r.Bool(0.3) {
								pick = d
							}
						}
					}
					ts = pick.MID
				}
				op.Docs = append(op.Docs, g.doc(ts))
			}
			ops = append(ops, op)
			if g.r.Bool(0.2) && len(op.Docs) > 1 {
				// a retry that overlaps only in part: documents the fraction already holds next to new ones, the newest
				// new one first (the borders of the fraction are recomputed from the survivors of the duplicate filter)
				g.nextBulk++
				re := Op{Kind: "bulk", Bulk: g.nextBulk}
				re.Docs = append(re.Docs, g.doc(g.nowMs+uint64(g.r.Range(4000, 9000))))
				re.Docs = append(re.Docs, op.Docs[:1+g.r.Intn(len(op.Docs)-1)]...)
				if g.r.Bool(0.5) {
					re.Docs = append(re.Docs, g.doc(g.nowMs-uint64(g.r.Intn(3000))))
				}
				ops = append(ops, re)
			}
		}
		c.Steps = append(c.Steps, seqStep(ops...))
		if g.r.Bool(0.5) {
			c.Steps = append(c.Steps, Step{Kind: "validate", Label: fmt.Sprintf("active%d", fi)})
		}
		if fi < nfrac-1 || g.r.Bool(0.6) {
			c.Steps = append(c.Steps, Step{Kind: "seal"}, Step{Kind: "validate", Label: fmt.Sprintf("sealed%d", fi)})
		}
		// clock jump, mostly while the store is stopped (no tickers to wake)
		jump := int64(g.r.Range(1, 30)) * hour / int64(g.r.Range(1, 6))
		if g.r.Bool(0.7) {
			c.Steps = append(c.Steps, Step{Kind: "stop"})
			if g.r.Bool(0.4) {
				c.Steps = append(c.Steps, Step{Kind: "tamper", Tamper: []string{"delete", "garble", "stale", "moved"}[g.r.Intn(4)]})
			}
			c.Steps = append(c.Steps, Step{Kind: "sleep", Ms: jump}, Step{Kind: "start"}, Step{Kind: "validate", Label: fmt.Sprintf("restarted%d", fi)})
		} else {
			jump /= 8
			c.Steps = append(c.Steps, Step{Kind: "sleep", Ms: jump})
		}
		g.nowMs += uint64(jump)
	}
	// range queries whose ends fall on and around document timestamps, bucket and fraction borders
	for i := 0; i < 14; i++ {
		s := g.search(true)
		d1, d2 := g.docs[g.r.Intn(len(g.docs))], g.docs[g.r.Intn(len(g.docs))]
		a, b := d1.MID, d2.MID
		if a > b {
			a, b = b, a
		}
		switch g.r.Intn(5) {
		case 0:
			a, b = a/60000*60000, b/60000*60000+59999
		case 1:
			a, b = a+1, b-1
		case 2:
			a, b = a-1, b+1
		case 3:
			b = a
		}
		if b < a {
			b = a
		}
		s.From, s.To = a, b
		c.Battery = append(c.Battery, s)
	}
	return c
}

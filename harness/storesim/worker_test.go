package storesim

import (
	"encoding/json"
	"fmt"
	"os"
	"strings"
	"testing"
)

// Job is what the driver hands to a worker process (env VERIF_JOB = file path or inline JSON).
type Job struct {
	Mode     string          `json:"mode"` // gen | replay
	Property string          `json:"property"`
	Seed     uint64          `json:"seed"`
	Thorough bool            `json:"thorough,omitempty"`
	Case     json.RawMessage `json:"case,omitempty"`
	EmitCase bool            `json:"emit_case,omitempty"`
	Profile  string          `json:"profile,omitempty"` // "cluster-c16", "cluster-c19": the real-store lanes of proxy properties
}

func loadJob() (*Job, error) {
	v := os.Getenv("VERIF_JOB")
	if v == "" {
		return nil, fmt.Errorf("VERIF_JOB not set")
	}
	data := []byte(v)
	if !strings.HasPrefix(strings.TrimSpace(v), "{") {
		b, err := os.ReadFile(v)
		if err != nil {
			return nil, err
		}
		data = b
	}
	var j Job
	if err := json.Unmarshal(data, &j); err != nil {
		return nil, err
	}
	return &j, nil
}

// TestWorker runs exactly one simulated run and exits the process.
func TestWorker(t *testing.T) {
	job, err := loadJob()
	if err != nil {
		t.Skip(err)
	}
	// C05 has a store-level sub-profile (chunked searches racing with retention) on every fourth seed
	storeC05 := job.Property == "C05" && job.Profile == "" && job.Mode != "replay" && job.Seed%4 == 3
	if job.Mode == "replay" && job.Property == "C05" {
		var probe struct {
			Profile string `json:"profile"`
		}
		json.Unmarshal(job.Case, &probe)
		storeC05 = probe.Profile == "c05-retention"
	}
	if !storeC05 && (job.Property == "C05" || job.Property == "C06" || strings.HasPrefix(job.Profile, "cluster-")) {
		var cc *ClusterCase
		switch {
		case job.Mode == "replay":
			cc = &ClusterCase{}
			if err := json.Unmarshal(job.Case, cc); err != nil {
				t.Fatal(err)
			}
		case strings.HasPrefix(job.Profile, "cluster-"):
			cc = GenClusterF(job.Profile, job.Property, job.Seed, Tier{Thorough: job.Thorough})
		default:
			cc = GenCluster(job.Property, job.Seed, Tier{Thorough: job.Thorough})
		}
		RunCluster(t, cc, func(res *Result) {
			out, _ := json.Marshal(res)
			fmt.Printf("RESULT %s\n", out)
			if job.EmitCase || res.Outcome == "violation" || res.Outcome == "inconclusive" {
				x := *cc
				x.Schedule = res.Schedule
				cj, _ := json.Marshal(&x)
				fmt.Printf("CASE %s\n", cj)
			}
			os.Stdout.Sync()
			os.Exit(0)
		})
		return
	}
	var c *Case
	if job.Mode == "replay" {
		c = &Case{}
		if err := json.Unmarshal(job.Case, c); err != nil {
			t.Fatal(err)
		}
	} else {
		c = GenCase(job.Property, job.Seed, Tier{Thorough: job.Thorough})
	}
	Run(t, c, func(res *Result) {
		out, _ := json.Marshal(res)
		fmt.Printf("RESULT %s\n", out)
		if job.EmitCase || res.Outcome == "violation" || res.Outcome == "inconclusive" {
			cc := *c
			cc.Schedule = res.Schedule
			cj, _ := json.Marshal(&cc)
			fmt.Printf("CASE %s\n", cj)
		}
		os.Stdout.Sync()
		os.Exit(0)
	})
	// not reached for store runs
	fmt.Println("RESULT {\"outcome\":\"infra\",\"infra\":\"bubble ended without result\"}")
}

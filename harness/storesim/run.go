package storesim

import (
	"bytes"
	"crypto/sha256"
	"encoding/hex"
	"fmt"
	"os"
	"sort"
	"strings"
	"testing"
	"time"

	"verif/harness/model"
	"verif/harness/simenv"

	"github.com/ozontech/seq-db/logger"
	"github.com/ozontech/seq-db/seq"
	"github.com/ozontech/seq-db/verifsim"
	"github.com/ozontech/seq-db/verifsim/simos"
)

const (
	opTimeout   = 2 * time.Minute // simulated; the bulk handler itself gives up after 30 s
	bootTimeout = time.Hour
)

type bulkState struct {
	docs   []*model.Doc
	status string // unknown | acked
}

type runner struct {
	c   *Case
	s   *verifsim.Sim
	w   *simos.World
	st  *simenv.Store
	res *Result

	bulks      map[int]*bulkState
	bulkOrder  []int
	issued     map[model.ID]*model.Doc
	fracOf     map[model.ID]string // learned from hints at quiescent points
	fracSeen   map[string]bool
	gone       map[string]bool // fractions observed (completely) gone after a restart
	stopping   bool            // a graceful stop runs next to other clients: refusals and a dying process are expected
	hadIndex   map[string]bool // fractions whose published sealed form (.index) was on disk in some boot image
	forms      map[string]string
	log        []string
	states     map[string]bool
	errFired   bool
	startedAt  time.Time
	asyncs     map[string]*AsyncReq
	asyncBase  map[string]int             // number of bulks submitted before the asynchronous search was started
	asyncFracs map[string]map[string]bool // fractions that existed when it was started
}

func (r *runner) logf(format string, a ...any) {
	ms := time.Since(r.startedAt).Milliseconds()
	r.log = append(r.log, fmt.Sprintf("t=%d ", ms)+fmt.Sprintf(format, a...))
}

func (r *runner) violate(clause, format string, a ...any) {
	d := fmt.Sprintf(format, a...)
	if len(d) > 1500 {
		d = d[:1500] + "..."
	}
	for _, v := range r.res.Violations {
		if v.Clause == clause {
			return // one per clause is enough; first is the most informative
		}
	}
	at := ""
	if len(r.log) > 0 {
		at = r.log[len(r.log)-1]
	}
	r.res.Violations = append(r.res.Violations, Violation{Clause: clause, Detail: d, At: at})
	r.logf("VIOLATION %s: %s", clause, d)
}

func (r *runner) known(tag string) {
	for _, k := range r.res.Known {
		if k == tag {
			return
		}
	}
	r.res.Known = append(r.res.Known, tag)
}

// Run executes one case in a fresh bubble. Because a store keeps tickers running the bubble can
// never end: done is called with the result from inside the bubble and is expected to report it
// and exit the process.
func Run(t *testing.T, c *Case, done func(*Result)) {
	res := &Result{Property: c.Property, Seed: c.Seed, Planned: map[string]int{}, Fired: map[string]int{}}
	k := c.Knobs
	simenv.ApplyGlobals(k, c.Seed)
	logger.ResetSink()
	w := simos.NewWorld()
	w.SyncLatency = time.Duration(k.SyncLatencyUs) * time.Microsecond
	w.FsyncCommitsJournal = k.FsyncCommitsJournal
	for _, f := range c.Faults {
		cp := *f
		cp.Armed, cp.Count, cp.Fired, cp.FiredAt = false, 0, false, ""
		w.Plan = append(w.Plan, &cp)
		res.Planned[f.Action]++
	}
	simos.Install(w)
	r := &runner{c: c, w: w, res: res, bulks: map[int]*bulkState{}, issued: map[model.ID]*model.Doc{},
		asyncBase: map[string]int{}, asyncFracs: map[string]map[string]bool{}, fracOf: map[model.ID]string{}, fracSeen: map[string]bool{}, gone: map[string]bool{}, forms: map[string]string{},
		states: map[string]bool{}, asyncs: map[string]*AsyncReq{}}
	cfg := verifsim.Config{
		Seed: c.Seed, PSync: k.PSync, PStmt: k.PStmt, StepCost: time.Duration(k.StepCostNs), Schedule: c.Schedule,
		MaxSteps: c.MaxSteps,
	}
	if cfg.MaxSteps == 0 {
		cfg.MaxSteps = 3000000
	}
	cfg.IdleLimit = 5000 * time.Hour // clock jumps while the store is stopped are legitimate; liveness is judged per operation
	cfg.OnEnd = func(s *verifsim.Sim) { done(r.finish(s)) }
	verifsim.RunBubble(t, cfg, func(s *verifsim.Sim) {
		r.s = s
		r.startedAt = time.Now()
		r.st = simenv.NewStore(s, w, "s0", k, c.Mode)
		r.script()
	})
}

func (r *runner) finish(s *verifsim.Sim) *Result {
	res, w := r.res, r.w
	res.Steps, res.Switches, res.SimMs = s.Steps(), s.Switches(), s.SimElapsed().Milliseconds()
	res.Hash = fmt.Sprintf("%016x", s.InterleavingHash())
	res.Schedule = s.RecordedSchedule()
	res.Probes = map[string]int{}
	for k, v := range s.Probes {
		res.Probes[k] = v
	}
	for k, v := range logger.SinkSnapshot() {
		if !strings.HasPrefix(k, "info:") || probeMessages[strings.TrimPrefix(k, "info:")] {
			res.Probes["log:"+k] = v
		}
	}
	for _, f := range w.Plan {
		if f.Fired {
			res.Fired[f.Action]++
		}
	}
	res.DiskStats = w.Stats
	for st := range r.states {
		res.States = append(res.States, st)
	}
	sort.Strings(res.States)
	h := sha256.New()
	for _, l := range r.log {
		h.Write([]byte(l + "\n"))
	}
	for _, l := range w.Log {
		h.Write([]byte(l + "\n"))
	}
	h.Write([]byte(res.Hash))
	res.Digest = hex.EncodeToString(h.Sum(nil))[:16]
	nlog, ndisk := 60, 40
	if os.Getenv("VERIF_FULLTRACE") != "" {
		nlog, ndisk = 100000, 100000
	}
	res.Trace = tail(r.log, nlog)
	if len(w.Log) > 0 {
		res.Trace = append(res.Trace, "--- disk ---")
		res.Trace = append(res.Trace, tail(w.Log, ndisk)...)
	}
	res.NonTrivial = len(res.Fired) > 0 || res.Switches > 0
	switch {
	case len(s.Failures) > 0:
		res.Outcome, res.Infra = "infra", strings.Join(s.Failures, "\n")
	case len(res.Violations) > 0:
		res.Outcome = "violation"
	case s.Outcome != "":
		res.Outcome, res.Infra = "inconclusive", "run ended by: "+s.Outcome+"\n"+s.DumpTasks()
	default:
		res.Outcome = "ok"
	}
	return res
}

var probeMessages = map[string]bool{
	"cleaning up partially deleted fraction files": true,
	"append fail":              true,
	"sealing active fractions": true,
	"truncating last fraction": true,
}

func tail(l []string, n int) []string {
	if len(l) > n {
		l = l[len(l)-n:]
	}
	return append([]string(nil), l...)
}

func (r *runner) stateFingerprint() {
	if r.st.FM == nil || !r.st.Loaded {
		r.states["down"] = true
		return
	}
	fr := r.st.Fracs()
	sealed, active := 0, 0
	for _, f := range fr {
		if f.Sealed {
			sealed++
		} else {
			active++
		}
	}
	if sealed > 3 {
		sealed = 3
	}
	unknown := 0
	for _, b := range r.bulks {
		if b.status == "unknown" {
			unknown++
		}
	}
	if unknown > 2 {
		unknown = 2
	}
	r.states[fmt.Sprintf("sealed=%d active=%d unknown=%d inc=%d", sealed, active, unknown, min(r.st.Node.Incarnation(), 4))] = true
}

func (r *runner) script() {
	for i, step := range r.c.Steps {
		if len(r.res.Violations) > 0 && step.Kind != "validate" {
			// keep going only as far as needed: first violation decides the run
			break
		}
		r.logf("step %d %s %s", i, step.Kind, step.Label)
		r.step(&step)
		r.checkUnplannedDeath()
		r.stateFingerprint()
	}
}

func (r *runner) checkUnplannedDeath() {
	if r.st.Node.Alive() || !r.st.Loaded {
		return
	}
	// the incarnation died while the harness believed it was running
	note := r.st.Node.Note()
	r.st.Loaded = false
	if note == "" {
		return // planned crash or harness kill
	}
	r.logf("process died: %s", firstLine(note))
	if (r.c.Oracles.TolerateDeath && r.errFiredNow()) || r.stopping {
		return
	}
	if r.diedOnReadError(note) {
		// the store gave up on a planned read error (fail-stop): a failure, not a wrong answer; it has to come
		// back at the next start and answer correctly then
		r.s.Probe("died_on_read_error")
		return
	}
	r.classifyDeath(note)
}

func firstLine(s string) string {
	if i := strings.IndexByte(s, '\n'); i >= 0 {
		return s[:i]
	}
	return s
}

func (r *runner) errFiredNow() bool {
	for _, f := range r.w.Plan {
		if f.Fired && f.Action != "crash" && f.Action != "exit" {
			return true
		}
	}
	return false
}

// readFaultWindow: a read error is planned and armed (fired or not): requests may fail until it is disarmed,
// answers that are given must still be right, and nothing may stay wrong afterwards.
func (r *runner) readFaultWindow() bool {
	for _, f := range r.w.Plan {
		if f.Op == "read" && f.Armed {
			return true
		}
	}
	return false
}

// diedOnReadError: the process gave up on a planned read error that has fired (fail-stop).
func (r *runner) diedOnReadError(note string) bool {
	if !strings.Contains(note, "input/output error") {
		return false
	}
	for _, f := range r.w.Plan {
		if f.Op == "read" && f.Fired {
			return true
		}
	}
	return false
}

func (r *runner) classifyDeath(note string) {
	r.violate("process_died", "%s", note)
}

func (r *runner) step(st *Step) {
	switch st.Kind {
	case "start":
		r.start()
	case "start_cancelled":
		// an operator interrupts the start-up (SIGTERM reaches Load through its context): the process gives
		// up; whatever it did to the disk until then must leave everything in place for the next start
		if !(r.st.Loaded && r.st.Node.Alive()) {
			r.imageProbes()
			res := r.st.StartCancelled(bootTimeout, int(st.Ms))
			r.logf("start with cancellation at poll %d -> %s %s", st.Ms, res, firstLine(r.st.Node.Note()))
			r.res.Fired["start_cancelled"]++
			if res != "loaded" {
				if res == "timeout" {
					r.st.Node.Kill("boot timeout", true)
				} else if n := r.st.Node.Note(); n != "" && !strings.Contains(n, "context canceled") {
					r.violate("startup", "interrupted start-up ended with something else than the cancellation: %s", n)
				}
				r.st.Loaded = false
			}
		}
	case "par":
		r.par(st.Clients)
	case "arm":
		r.w.Arm(st.Group)
	case "disarm":
		r.w.Disarm()
	case "sleep":
		r.s.SleepSim(time.Duration(st.Ms) * time.Millisecond)
	case "stop":
		if r.st.Loaded {
			if res := r.st.StopGraceful(bootTimeout); res == "timeout" {
				r.violate("hang", "graceful stop did not finish within %s simulated\n%s", bootTimeout, r.s.DumpTasks())
			} else if res == "dead" && r.st.Node.Note() != "" {
				if !(r.c.Oracles.TolerateDeath && r.errFiredNow()) && !r.diedOnReadError(r.st.Node.Note()) {
					r.classifyDeath(r.st.Node.Note())
				}
			}
		}
	case "kill":
		if r.st.Loaded {
			r.st.KillProcess()
		}
	case "powerloss":
		if r.st.Loaded {
			r.notePendingBeforeCrash()
			r.st.PowerLoss(st.ImageSeed, st.ImageMode)
			r.res.Fired["harness_powerloss"]++
		}
	case "wait_idle":
		if r.st.Loaded {
			if res := r.st.WaitIdle(opTimeout); res == "timeout" {
				r.violate("hang", "WaitIdle did not finish\n%s", r.s.DumpTasks())
			}
		}
	case "seal":
		if r.st.Loaded && r.c.Knobs.FracSize < 1<<29 {
			// SealForcedForTests is a tests-only entry point that is not safe against the maintenance loop
			// rotating at the same time (both call rotate()); with a small FracSize the maintenance loop
			// rotates and seals on its own: give it time instead.
			r.s.SleepSim(time.Duration(3*r.c.Knobs.MaintenanceDelayMs+50) * time.Millisecond)
		} else if r.st.Loaded {
			fm := r.st.FM
			if res := r.st.Call(bootTimeout, func() { fm.WaitIdle(); fm.SealForcedForTests() }); res == "timeout" {
				r.violate("hang", "seal did not finish\n%s", r.s.DumpTasks())
			}
		}
	case "reset_cache":
		if r.st.Loaded {
			fm := r.st.FM
			r.st.Call(opTimeout, func() { fm.ResetCacheForTests() })
		}
	case "validate":
		r.validate(st.Label)
	case "tamper":
		r.tamper(st.Tamper)
	case "async_start":
		r.asyncStart(st.Async)
	case "async_wait":
		r.asyncWait(st.Async)
	default:
		panic("unknown step " + st.Kind)
	}
}

func (r *runner) start() {
	if r.st.Loaded && r.st.Node.Alive() {
		return
	}
	r.stopping = false
	r.imageProbes()
	res := r.st.Start(bootTimeout)
	r.logf("start -> %s", res)
	if res == "loaded" && r.c.Oracles.Retention {
		// let the first maintenance passes rotate an over-full replayed fraction before new bulks arrive
		r.s.SleepSim(time.Duration(3*r.c.Knobs.MaintenanceDelayMs) * time.Millisecond)
	}
	if res != "loaded" {
		note := r.st.Node.Note()
		if res == "timeout" {
			note = "boot did not finish within " + bootTimeout.String() + " simulated\n" + r.s.DumpTasks()
			r.st.Node.Kill("boot timeout", true)
		}
		if note == "" {
			// a planned crash hit during boot: not a failure to come back, try again
			r.logf("boot interrupted by planned crash")
			res2 := r.st.Start(bootTimeout)
			r.logf("start(2) -> %s", res2)
			if res2 == "loaded" {
				return
			}
			note = r.st.Node.Note()
		}
		r.violate("startup", "store does not come back up: %s", note)
	}
}

// imageProbes looks at the directory the next incarnation will start from.
func (r *runner) imageProbes() {
	files := r.w.List(r.st.Node.Dir)
	byFrac := map[string]map[string]int{}
	for p, sz := range files {
		base := p[strings.LastIndexByte(p, '/')+1:]
		if !strings.HasPrefix(base, "seq-db-") {
			continue
		}
		i := strings.IndexByte(base, '.')
		if i < 0 {
			continue
		}
		name, suf := base[:i], base[i:]
		if byFrac[name] == nil {
			byFrac[name] = map[string]int{}
		}
		byFrac[name][suf] = sz
	}
	if r.hadIndex == nil {
		r.hadIndex = map[string]bool{}
	}
	for p := range r.w.EverDurable(r.st.Node.Dir) {
		base := p[strings.LastIndexByte(p, '/')+1:]
		if strings.HasPrefix(base, "seq-db-") && strings.HasSuffix(base, ".index") {
			r.hadIndex[strings.TrimSuffix(base, ".index")] = true
		}
	}
	for name := range r.hadIndex {
		if byFrac[name] == nil {
			r.gone[name] = true
		}
	}
	for name, fs := range byFrac {
		_, docs := fs[".docs"]
		_, meta := fs[".meta"]
		_, index := fs[".index"]
		_, sdocs := fs[".sdocs"]
		if docs && !meta && !index {
			r.s.Probe("image_lone_docs")
			r.known("lone_docs:" + name)
		}
		for suf := range fs {
			if strings.HasSuffix(suf, ".del") {
				r.s.Probe("image_has_del")
				r.gone[name] = true
			}
		}
		// The published sealed form is removed by deletion only. A fraction that was sealed on disk at an
		// earlier start (or at the last durable point of this incarnation) and has no .index any more is a
		// fraction whose deletion has begun, whatever else is still lying around.
		if r.hadIndex == nil {
			r.hadIndex = map[string]bool{}
		}
		if index {
			r.hadIndex[name] = true
		} else if r.hadIndex[name] {
			r.s.Probe("image_sealed_form_removed")
			r.gone[name] = true
		}
		if (index && !sdocs && !docs) || (sdocs && !index && !meta) {
			r.s.Probe("image_incomplete_sealed")
		}
		if _, ok := fs["._index"]; ok {
			r.s.Probe("image_has_tmp_index")
		}
		if _, ok := fs["._sdocs"]; ok {
			r.s.Probe("image_has_tmp_sdocs")
		}
	}
}

// notePendingBeforeCrash records probes about what a crash is about to cut.
func (r *runner) notePendingBeforeCrash() {
	ns, files := r.w.PendingSummary(r.st.Node.Dir)
	if ns > 0 {
		r.s.Probe("crash_with_pending_ns_ops")
	}
	if files > 0 {
		r.s.Probe("crash_with_unsynced_files")
	}
}

func (r *runner) tamper(how string) {
	p := r.st.Node.Dir + "/.frac-cache"
	switch how {
	case "delete":
		r.w.Tamper(p, nil)
	case "garble":
		r.w.Tamper(p, []byte(`{"seq-db-XXXX": {"name": 17, `))
	case "truncate":
		r.w.Tamper(p, []byte{})
	case "stale":
		r.w.Tamper(p, []byte(`{"seq-db-00000000000000000000000000":{"name":"seq-db-00000000000000000000000000","ver":"1","docs_total":5,"docs_on_disk":100,"docs_raw":200,"meta_on_disk":0,"index_on_disk":100,"const_regular_block_size":16384,"const_ids_per_block":4096,"const_lid_block_cap":65536,"from":1,"to":2,"creation_time":3,"sealing_time":4}}`))
	case "moved":
		// the data directory was moved (restored from a copy, mounted elsewhere) with its cache file:
		// every cached entry still carries the path of the old location
		if data := r.w.Peek(p); data != nil {
			moved := bytes.ReplaceAll(data, []byte(`"`+r.st.Node.Dir+`/`), []byte(`"/sim/elsewhere/`))
			if !bytes.Equal(moved, data) {
				r.w.Tamper(p, moved)
				r.s.Probe("tamper_moved_entries")
			}
		}
	}
	r.s.Probe("tamper_" + how)
}

// ---- clients -----------------------------------------------------------------------------------

func (r *runner) par(clients [][]Op) {
	if !r.st.Loaded {
		return
	}
	var tasks []*verifsim.Task
	for ci, ops := range clients {
		ci, ops := ci, ops
		tasks = append(tasks, r.s.GoOn(nil, func() {
			for oi := range ops {
				if !r.st.Node.Alive() {
					return
				}
				r.clientOp(ci, &ops[oi])
			}
		}))
	}
	for _, t := range tasks {
		if res := r.s.WaitTask(t, nil, 6*time.Hour); res != "done" {
			r.violate("hang", "client did not finish (%s)\n%s", res, r.s.DumpTasks())
			return
		}
	}
}

func (r *runner) clientOp(ci int, op *Op) {
	r.res.Ops++
	switch op.Kind {
	case "sleep":
		r.s.SleepSim(time.Duration(op.Ms) * time.Millisecond)
	case "bulk":
		b := r.bulks[op.Bulk]
		if b == nil {
			b = &bulkState{docs: op.Docs, status: "unknown"}
			r.bulks[op.Bulk] = b
			r.bulkOrder = append(r.bulkOrder, op.Bulk)
		}
		for _, d := range op.Docs {
			if _, ok := r.issued[d.ID()]; !ok {
				r.issued[d.ID()] = d
			}
		}
		r.logf("c%d bulk#%d invoke docs=%d", ci, op.Bulk, len(op.Docs))
		ack, status, err := r.st.Bulk(opTimeout, op.Docs)
		r.logf("c%d bulk#%d -> ack=%v %s", ci, op.Bulk, ack, status)
		switch {
		case ack:
			b.status = "acked"
		case status == "timeout":
			if !r.errFiredNow() {
				r.violate("hang", "bulk #%d did not return within %s simulated\n%s", op.Bulk, opTimeout, r.s.DumpTasks())
			}
		case status == "done" && err != nil:
			if (r.c.Oracles.NoErrors || !r.errFiredNow()) && !r.stopping {
				r.violate("api_error", "bulk #%d returned error without any injected fault: %v", op.Bulk, err)
			}
		}
	case "stop":
		// graceful stop while other clients keep sending (the store is stopped before whoever feeds it, as in
		// single mode): a bulk that is refused or a process that dies during the stop is a crash like any
		// other - what was acknowledged must be there after the next start
		if r.st.Loaded && r.st.Node.Alive() {
			r.stopping = true
			// a stop that does not finish within two simulated minutes is ended by the supervisor (SIGKILL):
			// stopping under load is not something the store promises to survive gracefully, only safely
			res := r.st.StopGraceful(2 * time.Minute)
			r.logf("c%d stop under load -> %s", ci, res)
			r.res.Fired["stop_under_load"]++
			if res == "timeout" {
				r.s.Probe("stop_under_load_killed")
				r.st.KillProcess()
			}
		}
	case "search":
		r.logf("c%d search %q invoke", ci, op.S.Q.SeqQL())
		r.adhocSearch(ci, op.S)
	case "fetch":
		r.adhocFetch(ci, op.IDs)
	}
}

func toReq(s *Search) simenv.SearchReq {
	return simenv.SearchReq{Query: s.Q.SeqQL(), From: s.From, To: s.To, Size: s.Size, Desc: s.Desc, WithTotal: s.WithTotal, Interval: s.Interval, Aggs: s.Aggs}
}

func mid(id seq.ID) model.ID { return model.ID{MID: uint64(id.MID), RID: uint64(id.RID)} }

// adhocSearch is a search issued while writers may be running: soundness only.
func (r *runner) adhocSearch(ci int, s *Search) {
	var before []simenv.FracInfo
	if r.c.Oracles.Retention && r.st.Loaded {
		before = r.st.Fracs()
	}
	res, status, err := r.st.Search(opTimeout, toReq(s))
	if status == "dead" {
		return
	}
	if status == "timeout" {
		r.violate("hang", "search did not return\n%s", r.s.DumpTasks())
		return
	}
	if err != nil && s.Fails {
		r.s.Probe("failing_search_answered_error")
		r.logf("c%d failing search -> %v", ci, err)
		return
	}
	if err != nil {
		if (r.c.Oracles.NoErrors || !r.errFiredNow()) && !r.readFaultWindow() {
			r.violate("api_error", "search %q returned error: %v", s.Q.SeqQL(), err)
		}
		return
	}
	r.logf("c%d search -> %d hits", ci, len(res.Hits))
	if !r.checkSound(s, res, "concurrent") {
		return
	}
	if before != nil && r.st.Loaded && r.st.Node.Alive() {
		if !r.checkStableFractions(s, res, before, r.st.Fracs()) {
			return
		}
	}
	// every returned id can be fetched immediately with exactly its bytes
	if len(res.Hits) == 0 {
		return
	}
	docs, status, err := r.st.Fetch(opTimeout, res.Hits, true)
	if status == "dead" {
		return
	}
	if status == "timeout" {
		r.violate("hang", "fetch did not return\n%s", r.s.DumpTasks())
		return
	}
	if err != nil {
		if (r.c.Oracles.NoErrors || !r.errFiredNow()) && !r.readFaultWindow() {
			r.violate("api_error", "fetch of search hits returned error: %v", err)
		}
		return
	}
	if len(docs) != len(res.Hits) {
		r.violate("fetch_shape", "fetch returned %d entries for %d ids", len(docs), len(res.Hits))
		return
	}
	for i, h := range res.Hits {
		want := r.issued[mid(h.ID)]
		if docs[i].ID != h.ID {
			r.violate("fetch_shape", "entry %d carries id %s, requested %s", i, docs[i].ID, h.ID)
			return
		}
		if docs[i].Body == nil {
			if r.c.Oracles.Retention {
				continue // its fraction may have been retired in between
			}
			r.violate("fetch_after_search", "id %s (hint %q) returned by search %q is not fetchable right away", mid(h.ID), h.Hint, s.Q.SeqQL())
			return
		}
		if string(docs[i].Body) != string(want.Body()) {
			r.violate("wrong_bytes", "fetch of %s returned %q, ingested %q", mid(h.ID), clip(docs[i].Body), clip(want.Body()))
			return
		}
	}
}

// checkStableFractions: a search that runs while retention retires fractions (and writers add new ones)
// may legitimately miss documents of fractions that went away. But a fraction that was sealed before the
// search and is still served after it was there all the time with the same content: each of its matching
// documents must be listed, unless the listing is full and ends before the document.
func (r *runner) checkStableFractions(s *Search, res *simenv.SearchRes, before, after []simenv.FracInfo) bool {
	stable := map[string]bool{}
	for _, f := range before {
		if f.Sealed {
			stable[f.Name] = true
		}
	}
	still := map[string]bool{}
	for _, f := range after {
		still[f.Name] = true
	}
	for _, f := range before {
		if !still[f.Name] {
			r.s.Probe("fraction_retired_during_search")
			break
		}
	}
	listed := map[model.ID]bool{}
	for _, h := range res.Hits {
		listed[mid(h.ID)] = true
	}
	if s.Size == 0 {
		return true // a listing of nothing is complete
	}
	var last model.ID
	full := len(res.Hits) >= s.Size
	if len(res.Hits) > 0 {
		last = mid(res.Hits[len(res.Hits)-1].ID)
	}
	// only documents of acknowledged bulks are promised to stay in their fraction: an unacknowledged
	// one that was visible after a process exit may vanish from the (then active) fraction with a
	// later power loss, and the fraction is sealed without it
	ackedDoc := map[model.ID]bool{}
	for _, bn := range r.bulkOrder {
		if b := r.bulks[bn]; b.status == "acked" {
			for _, d := range b.docs {
				ackedDoc[d.ID()] = true
			}
		}
	}
	checked := false
	for id, fname := range r.fracOf {
		if !stable[fname] || !still[fname] || listed[id] || !ackedDoc[id] {
			continue
		}
		d := r.issued[id]
		if d == nil || d.MID < s.From || d.MID > s.To || !s.Q.Match(d) {
			continue
		}
		checked = true
		beyondCut := full && ((s.Desc && model.Less(id, last)) || (!s.Desc && model.Less(last, id)))
		if !beyondCut {
			r.violate("search_incomplete", "concurrent search %q [%d,%d] desc=%v size=%d lists %d ids without %s of fraction %s, which was sealed before the search and is still served after it (last listed %s)",
				s.Q.SeqQL(), s.From, s.To, s.Desc, s.Size, len(res.Hits), id, fname, last)
			return false
		}
	}
	if checked {
		r.s.Probe("stable_fraction_docs_checked")
	}
	for _, h := range res.Hits {
		if h.Hint != "" {
			if _, ok := r.fracOf[mid(h.ID)]; !ok {
				r.fracOf[mid(h.ID)] = h.Hint
			}
		}
	}
	return true
}

func clip(b []byte) string {
	if len(b) > 60 {
		return string(b[:60]) + "..."
	}
	return string(b)
}

// checkSound: ids known, matching, in range, strictly ordered, within limit.
func (r *runner) checkSound(s *Search, res *simenv.SearchRes, where string) bool {
	if len(res.Hits) > s.Size {
		r.violate("search_limit", "%s search %q returned %d ids for limit %d", where, s.Q.SeqQL(), len(res.Hits), s.Size)
		return false
	}
	// a document with nested elements is indexed as several rows under one ID; the listing may
	// name it once per matching row (adjacent): that is one document, not a duplicate
	if len(res.Hits) > 1 {
		out := res.Hits[:1]
		for _, h := range res.Hits[1:] {
			if h.ID == out[len(out)-1].ID {
				if d := r.issued[mid(h.ID)]; d != nil && len(d.Nested) > 0 {
					r.s.Probe("nested_rows_listed_adjacent")
					continue
				}
			}
			out = append(out, h)
		}
		res.Hits = out
	}
	var prev model.ID
	for i, h := range res.Hits {
		id := mid(h.ID)
		d := r.issued[id]
		if d == nil {
			r.violate("unknown_id", "%s search %q returned id %s that was never submitted", where, s.Q.SeqQL(), id)
			return false
		}
		if !s.Q.Match(d) || d.MID < s.From || d.MID > s.To {
			r.violate("search_wrong_doc", "%s search %q [%d,%d] returned %s which does not match (tokens %v)", where, s.Q.SeqQL(), s.From, s.To, id, d.Toks)
			return false
		}
		if i > 0 {
			ok := model.Less(prev, id)
			if s.Desc {
				ok = model.Less(id, prev)
			}
			if !ok {
				r.violate("search_order", "%s search %q: ids %s, %s out of order or repeated (desc=%v)", where, s.Q.SeqQL(), prev, id, s.Desc)
				return false
			}
		}
		prev = id
	}
	return true
}

func (r *runner) adhocFetch(ci int, ids []model.ID) {
	hits := make([]simenv.Hit, len(ids))
	for i, id := range ids {
		hits[i] = simenv.Hit{ID: seq.ID{MID: seq.MID(id.MID), RID: seq.RID(id.RID)}}
	}
	docs, status, err := r.st.Fetch(opTimeout, hits, false)
	if status == "dead" {
		return
	}
	if status == "timeout" {
		r.violate("hang", "fetch did not return\n%s", r.s.DumpTasks())
		return
	}
	if err != nil {
		if (r.c.Oracles.NoErrors || !r.errFiredNow()) && !r.readFaultWindow() {
			r.violate("api_error", "fetch of %d ids returned error: %v", len(ids), err)
		}
		return
	}
	r.logf("c%d fetch %d ids -> %d entries", ci, len(ids), len(docs))
	if len(docs) != len(ids) {
		r.violate("fetch_shape", "fetch returned %d entries for %d ids", len(docs), len(ids))
		return
	}
	for i, id := range ids {
		if mid(docs[i].ID) != id {
			r.violate("fetch_shape", "entry %d carries id %s, requested %s", i, mid(docs[i].ID), id)
			return
		}
		d := r.issued[id]
		if docs[i].Body == nil {
			continue
		}
		if d == nil {
			r.violate("unknown_id", "fetch of never-submitted id %s returned %q", id, clip(docs[i].Body))
			return
		}
		if string(docs[i].Body) != string(d.Body()) {
			r.violate("wrong_bytes", "fetch of %s returned %q, ingested %q", id, clip(docs[i].Body), clip(d.Body()))
			return
		}
	}
}

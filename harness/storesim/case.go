// Package storesim runs one real seq-db store (FracManager + GrpcV1) on the simulated disk under
// the deterministic scheduler, drives it with a scripted workload plus fault plan, and checks
// it against the reference model.
package storesim

import (
	"verif/harness/model"
	"verif/harness/simenv"

	"github.com/ozontech/seq-db/verifsim/simos"
)

// BaseMs is the fake clock's start (2000-01-01T00:00:00Z) in milliseconds.
const BaseMs = 946684800000

// Op is one client operation.
type Op struct {
	Kind string `json:"k"` // bulk | search | fetch | sleep | async_start

	// bulk
	Bulk int          `json:"bulk,omitempty"` // unique bulk number (re-deliveries get their own number)
	Docs []*model.Doc `json:"docs,omitempty"`
	// cluster: the bulk also reaches every replica of this shard (1-based; 0 = no), as after a fail-over
	// of the proxy's client from a partially written shard: documents present on several shards
	DupShard int `json:"dup_shard,omitempty"`
	// bulk through the proxy client: deadline of the request in ms of simulated time (<0: cancelled before the call)
	CtxMs int `json:"ctx_ms,omitempty"`

	// search (+ immediate fetch of the hits)
	S *Search `json:"s,omitempty"`

	// fetch of explicit ids (present or absent)
	IDs      []model.ID `json:"ids,omitempty"`
	UseHints bool       `json:"hints,omitempty"`

	// sleep
	Ms int `json:"ms,omitempty"`
}

// Search is one search request of the battery or of a reader client.
type Search struct {
	Q         *model.Q        `json:"q"`
	From      uint64          `json:"from"`
	To        uint64          `json:"to"`
	Size      int             `json:"size"`
	Desc      bool            `json:"desc"`
	WithTotal bool            `json:"total,omitempty"`
	Interval  uint64          `json:"interval,omitempty"`
	Aggs      []simenv.AggReq `json:"aggs,omitempty"`
	// Fails: the request is built to fail inside the fractions it reaches (a sum over a field whose values are
	// not numbers): an error is the expected answer, only that it answers, and what it leaves behind, matter
	Fails bool `json:"fails,omitempty"`
}

// Step is one step of the script executed by the root task.
type Step struct {
	Kind string `json:"k"`
	// par: concurrent clients; seq is par with one client
	Clients [][]Op `json:"clients,omitempty"`
	// arm: fault group to arm (0 = all); disarm
	Group int `json:"group,omitempty"`
	// sleep / jump: simulated milliseconds
	Ms int64 `json:"ms,omitempty"`
	// powerloss: image parameters
	ImageSeed uint64 `json:"image_seed,omitempty"`
	ImageMode string `json:"image_mode,omitempty"`
	// tamper: what to do with .frac-cache: delete | garble | truncate
	Tamper string `json:"tamper,omitempty"`
	// validate: label
	Label string `json:"label,omitempty"`
	// async_start / async_wait
	Async *AsyncReq `json:"async,omitempty"`
}

// AsyncReq describes an asynchronous search (C19).
type AsyncReq struct {
	ID string  `json:"id"`
	S  *Search `json:"s"`
}

// Oracles switches clauses on and off per profile.
type Oracles struct {
	Retention     bool `json:"retention,omitempty"`      // fractions may be retired: weak presence oracle + whole-fraction/oldest-first checks
	CountsStrict  bool `json:"counts_strict,omitempty"`  // totals/hist/aggs/DocsTotal count each document once (all copies in one fraction)
	TolerateDeath bool `json:"tolerate_death,omitempty"` // I/O errors are injected: the process may die, data must survive
	FormsEqual    bool `json:"forms_equal,omitempty"`    // C03: compare batteries of different fraction forms with each other
	NoErrors      bool `json:"no_errors,omitempty"`      // C07: any API error is a violation
	IDsOnly       bool `json:"ids_only,omitempty"`       // copies of a document may sit in several fractions: only listing and fetch are compared
	NoAggs        bool `json:"no_aggs,omitempty"`        // copies of a document sit in several fractions: listing, total and histogram are corrected by the merge and compared, aggregations are not
}

// Case is a complete, explicit, replayable simulation input.
type Case struct {
	Property string         `json:"property"`
	Profile  string         `json:"profile"`
	Seed     uint64         `json:"seed"`
	Knobs    simenv.Knobs   `json:"knobs"`
	Mode     string         `json:"store_mode,omitempty"` // hot (default) | cold
	Oracles  Oracles        `json:"oracles"`
	Steps    []Step         `json:"steps"`
	Faults   []*simos.Fault `json:"faults,omitempty"`
	Battery  []*Search      `json:"battery,omitempty"`
	Schedule []int          `json:"schedule,omitempty"` // nil = generate from seed
	MaxSteps int            `json:"max_steps,omitempty"`
}

// Violation is one oracle failure.
type Violation struct {
	Clause string `json:"clause"`
	Detail string `json:"detail"`
	At     string `json:"at,omitempty"`
}

// Result of one run.
type Result struct {
	Property   string         `json:"property"`
	Seed       uint64         `json:"seed"`
	Outcome    string         `json:"outcome"` // ok | violation | inconclusive | infra
	Violations []Violation    `json:"violations,omitempty"`
	Known      []string       `json:"known,omitempty"` // preconditions of known findings observed in this run
	Infra      string         `json:"infra,omitempty"`
	Steps      int            `json:"steps"`
	Switches   int            `json:"switches"`
	SimMs      int64          `json:"sim_ms"`
	Hash       string         `json:"hash"`
	Ops        int            `json:"ops"`
	Planned    map[string]int `json:"planned,omitempty"`
	Fired      map[string]int `json:"fired,omitempty"`
	Probes     map[string]int `json:"probes,omitempty"`
	States     []string       `json:"states,omitempty"`
	DiskStats  map[string]int `json:"disk,omitempty"`
	Schedule   []int          `json:"schedule,omitempty"`
	Trace      []string       `json:"trace,omitempty"`
	NonTrivial bool           `json:"nontrivial"`
	Digest     string         `json:"digest"` // hash of the complete observable event log (determinism self-test)
}

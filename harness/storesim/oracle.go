package storesim

import (
	"os"
	"context"
	"fmt"
	"math"
	"sort"
	"strings"
	"time"

	"verif/harness/model"
	"verif/harness/simenv"

	pb "github.com/ozontech/seq-db/pkg/storeapi"
	"github.com/ozontech/seq-db/seq"
)

func hitOf(id model.ID) simenv.Hit {
	return simenv.Hit{ID: seq.ID{MID: seq.MID(id.MID), RID: seq.RID(id.RID)}}
}

// fetchIDs fetches by id without hints; returns bodies positionally or false on API trouble.
func (r *runner) fetchIDs(ids []model.ID) ([][]byte, bool) {
	out := make([][]byte, 0, len(ids))
	for start := 0; start < len(ids); start += 300 {
		end := min(len(ids), start+300)
		hits := make([]simenv.Hit, 0, end-start)
		for _, id := range ids[start:end] {
			hits = append(hits, hitOf(id))
		}
		docs, status, err := r.st.Fetch(opTimeout, hits, false)
		if status == "dead" {
			return nil, false
		}
		if status == "timeout" {
			r.violate("hang", "fetch did not return\n%s", r.s.DumpTasks())
			return nil, false
		}
		if err != nil && r.readFaultWindow() {
			r.s.Probe("fetch_failed_in_read_fault_window")
			return nil, false
		}
		if err != nil {
			r.violate("api_error", "fetch of %d ids at a quiescent point returned error: %v", len(hits), err)
			return nil, false
		}
		if len(docs) != len(hits) {
			r.violate("fetch_shape", "fetch returned %d entries for %d ids", len(docs), len(hits))
			return nil, false
		}
		for i, d := range docs {
			if d.ID != hits[i].ID {
				r.violate("fetch_shape", "entry %d carries id %s, requested %s", i, d.ID, hits[i].ID)
				return nil, false
			}
			out = append(out, d.Body)
		}
	}
	return out, true
}

// validate compares the store with the reference model at a quiescent point.
func (r *runner) validate(label string) {
	if !r.st.Loaded || !r.st.Node.Alive() {
		r.start()
		if !r.st.Loaded {
			return
		}
	}
	if res := r.st.WaitIdle(opTimeout); res == "timeout" {
		r.violate("hang", "WaitIdle did not finish\n%s", r.s.DumpTasks())
		return
	} else if res == "dead" {
		r.checkUnplannedDeath()
		return
	}
	// no request is in flight now (the clients of the step before have returned; cases with background searches are
	// left out): a search worker slot that is still taken will never be given back, and as many such requests as
	// there are workers block every later search for good
	if r.c.Property != "C19" && r.st.API != nil {
		if n := r.st.API.VerifBusySearchWorkers(); n > 0 {
			r.violate("search_slot_leak", "%s: %d of %d search worker slots are still taken although no search is in flight: they are never given back, %d such requests deadlock every later search", label, n, max(1, r.c.Knobs.SearchWorkers), max(1, r.c.Knobs.SearchWorkers))
			return
		}
		// the same holds for the counters behind the request limits
		if ns, nb := r.st.API.VerifInflight(); ns != 0 || nb != 0 {
			r.violate("inflight_leak", "%s: the store counts %d searches and %d bulks in flight although none is: the count never goes down again, and at the request limit every request is refused", label, ns, nb)
			return
		}
	}
	if r.c.Oracles.Retention {
		r.validateRetention(label)
		return
	}

	// 1. which documents must / may be there
	acked := map[model.ID]bool{}
	for _, bn := range r.bulkOrder {
		b := r.bulks[bn]
		if b.status == "acked" {
			for _, d := range b.docs {
				acked[d.ID()] = true
			}
		}
	}
	visible := model.NewCorpus()
	for id := range acked {
		visible.Add(r.issued[id])
	}
	for _, bn := range r.bulkOrder {
		b := r.bulks[bn]
		if b.status == "acked" {
			continue
		}
		var ids []model.ID
		for _, d := range b.docs {
			if !acked[d.ID()] {
				ids = append(ids, d.ID())
			}
		}
		if len(ids) == 0 {
			continue
		}
		bodies, ok := r.fetchIDs(ids)
		if !ok {
			return
		}
		present := 0
		for i, body := range bodies {
			if body != nil {
				present++
				if string(body) != string(r.issued[ids[i]].Body()) {
					r.violate("wrong_bytes", "%s: document %s of unacknowledged bulk #%d reads %q, ingested %q", label, ids[i], bn, clip(body), clip(r.issued[ids[i]].Body()))
					return
				}
			}
		}
		switch {
		case present == 0:
			r.s.Probe("unacked_bulk_absent")
		case present == len(ids):
			r.s.Probe("unacked_bulk_present")
			for _, id := range ids {
				visible.Add(r.issued[id])
			}
		default:
			r.violate("partial_bulk", "%s: unacknowledged bulk #%d is partially present: %d of %d documents fetchable", label, bn, present, len(ids))
			return
		}
	}

	// 2. every visible document is fetchable byte for byte; absent ids are just not found
	ids := make([]model.ID, 0, len(visible.Docs)+8)
	for id := range visible.Docs {
		ids = append(ids, id)
	}
	sort.Slice(ids, func(i, j int) bool { return model.Less(ids[i], ids[j]) })
	nreal := len(ids)
	if nreal > 0 {
		lo, hi := ids[0], ids[nreal-1]
		ids = append(ids, model.ID{MID: lo.MID, RID: 0}, model.ID{MID: lo.MID - 1, RID: math.MaxUint64}, model.ID{MID: hi.MID, RID: math.MaxUint64},
			model.ID{MID: hi.MID + 1, RID: 1}, model.ID{MID: 1, RID: 1})
	}
	// deterministic shuffle so that present and absent ids are mixed
	for i := len(ids) - 1; i > 0; i-- {
		j := int((uint64(i)*2654435761 + r.c.Seed) % uint64(i+1))
		ids[i], ids[j] = ids[j], ids[i]
	}
	bodies, ok := r.fetchIDs(ids)
	if !ok {
		return
	}
	for i, id := range ids {
		d := visible.Docs[id]
		switch {
		case d == nil && bodies[i] != nil && r.issued[id] == nil:
			r.violate("unknown_id", "%s: fetch of never-submitted id %s returned %q", label, id, clip(bodies[i]))
			return
		case d != nil && bodies[i] == nil:
			r.violate("lost_doc", "%s: document %s of an acknowledged bulk is not fetchable (fractions: %v)", label, id, r.st.Fracs())
			return
		case d != nil && string(bodies[i]) != string(d.Body()):
			r.violate("wrong_bytes", "%s: fetch of %s returned %q, ingested %q", label, id, clip(bodies[i]), clip(d.Body()))
			return
		}
	}

	// 3. every token of every visible document finds it (+ the case's battery)
	battery := append([]*Search(nil), r.c.Battery...)
	battery = append(battery, tokenBattery(visible)...)
	for _, s := range battery {
		if !r.compareSearch(label, s, visible) {
			return
		}
	}

	// 4. document count (each document once) when all copies are known to sit in one fraction
	if r.c.Oracles.CountsStrict {
		total := uint32(0)
		for _, f := range r.st.Fracs() {
			total += f.Docs
		}
		rows := 0 // the fraction counts rows: a document plus one per nested element
		for _, d := range visible.Docs {
			rows += 1 + len(d.Nested)
		}
		if int(total) != rows {
			r.violate("doc_count", "%s: fractions report %d documents, %d distinct documents (%d rows) are stored (%v)", label, total, len(visible.Docs), rows, r.st.Fracs())
		}
	}
	r.logf("validate %s ok: %d docs, %d queries", label, len(visible.Docs), len(battery))
}

// tokenBattery: one exact query per distinct token, alternating order.
func tokenBattery(c *model.Corpus) []*Search {
	seen := map[model.Tok]bool{}
	var toks []model.Tok
	for _, d := range c.Docs {
		for _, t := range d.Toks {
			if !seen[t] {
				seen[t] = true
				toks = append(toks, t)
			}
		}
		for _, n := range d.Nested {
			for _, t := range n {
				if !seen[t] {
					seen[t] = true
					toks = append(toks, t)
				}
			}
		}
	}
	sort.Slice(toks, func(i, j int) bool {
		if toks[i].F != toks[j].F {
			return toks[i].F < toks[j].F
		}
		return toks[i].V < toks[j].V
	})
	if len(toks) > 400 {
		// keep it bounded: every k-th token
		k := len(toks)/400 + 1
		var cut []model.Tok
		for i := 0; i < len(toks); i += k {
			cut = append(cut, toks[i])
		}
		toks = cut
	}
	var out []*Search
	for i, t := range toks {
		out = append(out, &Search{Q: &model.Q{Op: "term", F: t.F, V: t.V}, From: 0, To: math.MaxInt64, Size: 100000, Desc: i%2 == 0, WithTotal: true})
	}
	out = append(out, &Search{Q: &model.Q{Op: "all"}, From: 0, To: math.MaxInt64, Size: 100000, Desc: true, WithTotal: true})
	return out
}

// compareSearch runs one search at quiescence and demands equality with the model.
func (r *runner) compareSearch(label string, s *Search, corpus *model.Corpus) bool {
	res, status, err := r.st.Search(opTimeout, toReq(s))
	if status == "dead" {
		r.checkUnplannedDeath()
		return false
	}
	if status == "timeout" {
		r.violate("hang", "search did not return\n%s", r.s.DumpTasks())
		return false
	}
	if err != nil {
		if r.readFaultWindow() {
			r.s.Probe("search_failed_in_read_fault_window")
			return true
		}
		r.violate("api_error", "%s: search %q returned error: %v", label, s.Q.SeqQL(), err)
		return false
	}
	if res.Code != pb.SearchErrorCode_NO_ERROR {
		r.violate("api_error", "%s: search %q returned code %v", label, s.Q.SeqQL(), res.Code)
		return false
	}
	if !r.checkSound(s, res, label) {
		return false
	}
	want := corpus.Matching(s.Q, s.From, s.To, s.Desc)
	wantIDs := want
	if len(wantIDs) > s.Size {
		wantIDs = wantIDs[:s.Size]
	}
	if len(res.Hits) != len(wantIDs) {
		got := map[model.ID]bool{}
		for _, h := range res.Hits {
			got[mid(h.ID)] = true
		}
		var missing []string
		for _, d := range wantIDs {
			if !got[d.ID()] && len(missing) < 5 {
				missing = append(missing, d.ID().String())
			}
		}
		r.violate("search_incomplete", "%s: search %q [%d,%d] desc=%v size=%d returned %d ids, model has %d; e.g. missing %v (fractions %v)",
			label, s.Q.SeqQL(), s.From, s.To, s.Desc, s.Size, len(res.Hits), len(wantIDs), missing, r.st.Fracs())
		return false
	}
	for i, h := range res.Hits {
		if mid(h.ID) != wantIDs[i].ID() {
			r.violate("search_incomplete", "%s: search %q desc=%v: position %d is %s, model says %s", label, s.Q.SeqQL(), s.Desc, i, mid(h.ID), wantIDs[i].ID())
			return false
		}
		if h.Hint != "" {
			r.fracOf[mid(h.ID)] = h.Hint
		}
	}
	if r.c.Oracles.IDsOnly {
		return true
	}
	// counts are taken per row (meta); they are only defined in terms of documents when every
	// matching document matched through exactly one row (always true without nested elements)
	want, rowsAreDocs := model.Rows(s.Q, want)
	if !rowsAreDocs {
		r.s.Probe("nested_counts_skipped")
		return true
	}
	if r.copiesPossible() && len(want) > s.Size {
		// copies of a document in two fractions: total and histogram are corrected for the repetitions that are
		// listed, so they are only defined when the listing covers the whole result (DESIGN section 10)
		r.s.Probe("counts_skipped_partial_page_after_write_error")
		return true
	}
	if s.WithTotal && res.Total != uint64(len(want)) {
		r.violate("total", "%s: search %q reports total %d, model has %d matching documents", label, s.Q.SeqQL(), res.Total, len(want))
		return false
	}
	if s.Interval > 0 {
		wh := model.Hist(want, s.Interval)
		for k, v := range wh {
			if res.Hist[k] != v {
				r.violate("histogram", "%s: search %q interval %d: bucket %d holds %d, model %d", label, s.Q.SeqQL(), s.Interval, k, res.Hist[k], v)
				return false
			}
		}
		for k, v := range res.Hist {
			if v != 0 && wh[k] == 0 {
				r.violate("histogram", "%s: search %q interval %d: unexpected bucket %d=%d", label, s.Q.SeqQL(), s.Interval, k, v)
				return false
			}
		}
	}
	if len(s.Aggs) > 0 && !r.c.Oracles.NoAggs && !r.copiesPossible() {
		got := padAggs(res.Aggs, len(s.Aggs))
		if len(got) != len(s.Aggs) {
			r.violate("aggregation", "%s: %d aggregations requested, %d returned", label, len(s.Aggs), len(res.Aggs))
			return false
		}
		for i, a := range s.Aggs {
			if msg := checkAgg(a, got[i], want); msg != "" {
				r.violate("aggregation", "%s: search %q agg %+v: %s", label, s.Q.SeqQL(), a, msg)
				return false
			}
		}
	}
	return true
}

// padAggs: a response without any aggregation entry stands for "every aggregation is empty" (that
// is what a merge of zero partial results produces); it is compared as such, not as a shape error.
func padAggs(got []*pb.SearchResponse_Agg, n int) []*pb.SearchResponse_Agg {
	if len(got) == 0 {
		out := make([]*pb.SearchResponse_Agg, n)
		for i := range out {
			out[i] = &pb.SearchResponse_Agg{}
		}
		return out
	}
	return got
}

// tsBin is one (token, time bucket) cell of a time-series aggregation as returned.
type tsBin struct {
	Tok                string
	MID                uint64
	Total              int64
	Sum, Min, Max      float64
	Samples            []float64
}

// compareTS checks an aggregation that carries its own interval: the matching documents are cut
// into buckets of that interval and every (group, bucket) cell that holds a value must be reported
// exactly, in a bucket of THIS aggregation's interval. Cells without a value (and the accounting of
// documents that lack the field, which seq-db does not spread over buckets) are not compared.
func compareTS(a simenv.AggReq, got []tsBin, docs []*model.Doc) string {
	iv := uint64(a.Interval)
	parts := map[uint64][]*model.Doc{}
	for _, d := range docs {
		b := d.MID - d.MID%iv
		parts[b] = append(parts[b], d)
	}
	type cell struct {
		tok string
		mid uint64
	}
	wantCells := map[cell]*model.Bin{}
	for b, ds := range parts {
		for tok, wb := range model.Agg(ds, a.Func, a.Field, a.GroupBy).Bins {
			if wb.Total > 0 && tok != "_not_exists" {
				wantCells[cell{tok, b}] = wb
			}
		}
	}
	seen := map[cell]bool{}
	for _, g := range got {
		if g.Total == 0 || g.Tok == "_not_exists" {
			continue
		}
		c := cell{g.Tok, g.MID}
		if seen[c] {
			return fmt.Sprintf("cell %q@%d reported twice", g.Tok, g.MID)
		}
		seen[c] = true
		wb := wantCells[c]
		if wb == nil {
			return fmt.Sprintf("unexpected cell %q@%d (total %d) for interval %d", g.Tok, g.MID, g.Total, iv)
		}
		if g.Total != wb.Total {
			return fmt.Sprintf("cell %q@%d total %d, model %d", g.Tok, g.MID, g.Total, wb.Total)
		}
		if a.Field != "" {
			if (a.Field != "big" && g.Sum != wb.Sum) || g.Min != wb.Min || g.Max != wb.Max {
				return fmt.Sprintf("cell %q@%d sum/min/max %v/%v/%v, model %v/%v/%v", g.Tok, g.MID, g.Sum, g.Min, g.Max, wb.Sum, wb.Min, wb.Max)
			}
			if needsSamples(a) && len(wb.Samples) <= seq.VerifMaxHistogramSamples() {
				gs := append([]float64(nil), g.Samples...)
				sort.Float64s(gs)
				if len(gs) != len(wb.Samples) {
					return fmt.Sprintf("cell %q@%d has %d samples, model %d", g.Tok, g.MID, len(gs), len(wb.Samples))
				}
				for i := range gs {
					if gs[i] != wb.Samples[i] {
						return fmt.Sprintf("cell %q@%d sample %d is %v, model %v", g.Tok, g.MID, i, gs[i], wb.Samples[i])
					}
				}
			}
		}
	}
	var missing []cell
	for c := range wantCells {
		if !seen[c] {
			missing = append(missing, c)
		}
	}
	if len(missing) > 0 {
		sort.Slice(missing, func(i, j int) bool {
			if missing[i].mid != missing[j].mid {
				return missing[i].mid < missing[j].mid
			}
			return missing[i].tok < missing[j].tok
		})
		c := missing[0]
		return fmt.Sprintf("cell %q@%d missing (model total %d) for interval %d", c.tok, c.mid, wantCells[c].Total, iv)
	}
	return ""
}

// copiesPossible: a write or fsync of the active files has failed in this run and the store went on. The bulk
// it belonged to is retried by the store itself (FracManager.Append loops), possibly into the next fraction,
// while the block of the failed attempt may be complete in the files and come back at the next replay: the
// same document can then sit in two fractions. The merge corrects listing, total and histogram for such
// repetitions, not aggregations (DESIGN section 10), and no property promises more.
func (r *runner) copiesPossible() bool {
	if os.Getenv("VERIF_DEBUG_STRICT_AGGS") != "" {
		return false
	}
	for _, f := range r.w.Plan {
		if f.Fired && (f.Op == "write" || f.Op == "sync") && f.Action != "crash" && f.Action != "exit" {
			return true
		}
	}
	return false
}

// needsSamples: the values themselves are only kept (and compared) for a quantile strictly inside (0,1);
// 0 and 1 are answered from the minimum and the maximum.
func needsSamples(a simenv.AggReq) bool {
	if a.Func != "quantile" {
		return false
	}
	for _, q := range a.Quantiles {
		if q > 0 && q < 1 {
			return true
		}
	}
	return false
}

// checkAgg compares one returned aggregation with the model over the matching documents.
func checkAgg(a simenv.AggReq, got *pb.SearchResponse_Agg, docs []*model.Doc) string {
	if a.Interval > 0 && a.Func != "unique" {
		var bins []tsBin
		for _, b := range got.Timeseries {
			if b.Hist == nil {
				continue
			}
			bins = append(bins, tsBin{Tok: b.Label, MID: uint64(b.Ts.AsTime().UnixMilli()), Total: b.Hist.Total, Sum: b.Hist.Sum, Min: b.Hist.Min, Max: b.Hist.Max, Samples: b.Hist.Samples})
		}
		return compareTS(a, bins, docs)
	}
	return compareAgg(a, got, model.Agg(docs, a.Func, a.Field, a.GroupBy))
}

func compareAgg(a simenv.AggReq, got *pb.SearchResponse_Agg, want *model.AggExpect) string {
	if got.NotExists != want.NotExists {
		return fmt.Sprintf("not_exists %d, model %d", got.NotExists, want.NotExists)
	}
	for k, wb := range want.Bins {
		gb := got.AggHistogram[k]
		if gb == nil {
			return fmt.Sprintf("bin %q missing (model total %d)", k, wb.Total)
		}
		if a.Func == "unique" {
			continue
		}
		if gb.Total != wb.Total || gb.NotExists != wb.NotExists {
			return fmt.Sprintf("bin %q total/not_exists %d/%d, model %d/%d", k, gb.Total, gb.NotExists, wb.Total, wb.NotExists)
		}
		if a.Field != "" && wb.Total > 0 {
			if (a.Field != "big" && gb.Sum != wb.Sum) || gb.Min != wb.Min || gb.Max != wb.Max {
				return fmt.Sprintf("bin %q sum/min/max %v/%v/%v, model %v/%v/%v", k, gb.Sum, gb.Min, gb.Max, wb.Sum, wb.Min, wb.Max)
			}
			if needsSamples(a) && len(wb.Samples) <= seq.VerifMaxHistogramSamples() {
				gs := append([]float64(nil), gb.Samples...)
				sort.Float64s(gs)
				if len(gs) != len(wb.Samples) {
					return fmt.Sprintf("bin %q has %d samples, model %d", k, len(gs), len(wb.Samples))
				}
				for i := range gs {
					if gs[i] != wb.Samples[i] {
						return fmt.Sprintf("bin %q sample %d is %v, model %v", k, i, gs[i], wb.Samples[i])
					}
				}
			}
		}
	}
	for k, gb := range got.AggHistogram {
		if want.Bins[k] == nil {
			return fmt.Sprintf("unexpected bin %q (total %d)", k, gb.Total)
		}
	}
	return ""
}

// validateRetention: fractions may have been retired. Each fraction is completely served or
// completely gone, the served ones are the newest, gone ones never come back.
// The maintenance loop keeps running while the harness looks, and one search is not atomic with
// respect to a retention pass (fractions are visited newest-border first while retention retires
// oldest-created first), so an ordering/partial anomaly only counts if it persists in listings taken
// after retention had time to finish.
func (r *runner) validateRetention(label string) {
	pause := time.Duration(3*r.c.Knobs.MaintenanceDelayMs+10) * time.Millisecond
	var clause, detail string
	for attempt := 0; attempt < 4; attempt++ {
		if attempt > 0 {
			r.s.Probe("retention_listing_retry")
			r.s.SleepSim(pause)
			if !r.st.Node.Alive() {
				return
			}
		}
		var final bool
		clause, detail, final = r.listRetention(label)
		if clause == "" {
			return
		}
		if final {
			break
		}
	}
	r.violate(clause, "%s", detail)
}

// listRetention takes one listing. final = the anomaly cannot be an overlap with a retention pass.
func (r *runner) listRetention(label string) (clause, detail string, final bool) {
	s := &Search{Q: &model.Q{Op: "all"}, From: 0, To: math.MaxInt64, Size: 1000000, Desc: true}
	res, status, err := r.st.Search(opTimeout, toReq(s))
	if status != "done" {
		if status == "timeout" {
			return "hang", "search did not return\n" + r.s.DumpTasks(), true
		}
		return "", "", true
	}
	if err != nil || res.Code != pb.SearchErrorCode_NO_ERROR {
		return "api_error", fmt.Sprintf("%s: listing search failed: %v code=%v", label, err, res), true
	}
	if !r.checkSound(s, res, label) {
		return "", "", true // already recorded
	}
	served := map[string]int{}
	servedIDs := map[model.ID]bool{}
	for _, h := range res.Hits {
		id := mid(h.ID)
		servedIDs[id] = true
		if prev, ok := r.fracOf[id]; ok && prev != h.Hint {
			return "doc_moved", fmt.Sprintf("%s: document %s was served by fraction %s, now by %s", label, id, prev, h.Hint), true
		}
		served[h.Hint]++
		if r.gone[h.Hint] {
			return "fraction_reappeared", fmt.Sprintf("%s: fraction %s, whose deletion had begun on disk, serves document %s again", label, h.Hint, id), true
		}
	}
	// only documents of acknowledged bulks are promised to stay; an unacknowledged document that was
	// visible after a process exit may legitimately vanish with a later power loss
	ackedDoc := map[model.ID]bool{}
	for _, bn := range r.bulkOrder {
		if b := r.bulks[bn]; b.status == "acked" {
			for _, d := range b.docs {
				ackedDoc[d.ID()] = true
			}
		}
	}
	known := map[string]int{}
	for id, f := range r.fracOf {
		if ackedDoc[id] {
			known[f]++
		}
	}
	for _, h := range res.Hits {
		if _, ok := r.fracOf[mid(h.ID)]; !ok && ackedDoc[mid(h.ID)] {
			known[h.Hint]++
		}
	}
	for _, h := range res.Hits {
		if !ackedDoc[mid(h.ID)] {
			served[h.Hint]--
		}
	}
	names := make([]string, 0, len(known))
	for f := range known {
		names = append(names, f)
	}
	sort.Strings(names)
	firstServed := -1
	for i, f := range names {
		switch {
		case served[f] == 0:
			if firstServed >= 0 {
				return "retention_order", fmt.Sprintf("%s: fraction %s is gone while older fraction %s is still served (served %v; fractions %v; files %v)", label, f, names[firstServed], served, r.st.Fracs(), r.st.SortedFileList()), false
			}
		case served[f] == known[f]:
			if firstServed < 0 {
				firstServed = i
			}
		default:
			return "fraction_partial", fmt.Sprintf("%s: fraction %s serves %d of its %d known documents", label, f, served[f], known[f]), false
		}
	}
	// consistent listing: learn from it
	for _, h := range res.Hits {
		r.fracOf[mid(h.ID)] = h.Hint
		r.fracSeen[h.Hint] = true
	}
	unobserved := 0
	for _, bn := range r.bulkOrder {
		b := r.bulks[bn]
		if b.status != "acked" {
			continue
		}
		for _, d := range b.docs {
			if _, ok := r.fracOf[d.ID()]; !ok {
				unobserved++
			}
		}
	}
	if unobserved > 0 {
		r.s.Probe("retention_unobserved_missing")
	}
	// served documents fetch exactly
	var ids []model.ID
	for id := range servedIDs {
		ids = append(ids, id)
	}
	sort.Slice(ids, func(i, j int) bool { return model.Less(ids[i], ids[j]) })
	bodies, ok := r.fetchIDs(ids)
	if !ok {
		return "", "", true
	}
	var relist *simenv.SearchRes
	for i, id := range ids {
		if bodies[i] == nil {
			// retention may have retired the document's fraction between the listing and the fetch:
			// then the whole fraction must be gone from a fresh listing
			if relist == nil {
				relist, _, _ = r.st.Search(opTimeout, toReq(s))
			}
			stillServed := false
			if relist != nil {
				for _, h := range relist.Hits {
					if h.Hint == r.fracOf[id] {
						stillServed = true
						break
					}
				}
			}
			if relist == nil || stillServed {
				return "fetch_after_search", fmt.Sprintf("%s: listed document %s (fraction %s) is not fetchable although its fraction is still served", label, id, r.fracOf[id]), false
			}
			r.s.Probe("retired_between_list_and_fetch")
			continue
		}
		if string(bodies[i]) != string(r.issued[id].Body()) {
			return "wrong_bytes", fmt.Sprintf("%s: fetch of %s returned %q, ingested %q", label, id, clip(bodies[i]), clip(r.issued[id].Body())), true
		}
	}
	r.logf("validate(retention) %s ok: %d served docs in %d fractions, %d known fractions %v", label, len(ids), len(served), len(names), r.st.Fracs())
	return "", "", true
}

// ---- asynchronous search (C19) -----------------------------------------------------------------

func (r *runner) asyncStart(a *AsyncReq) {
	if !r.st.Loaded {
		return
	}
	order := pb.Order_ORDER_DESC
	if !a.S.Desc {
		order = pb.Order_ORDER_ASC
	}
	req := &pb.StartAsyncSearchRequest{SearchId: a.ID, Query: a.S.Q.SeqQL(), From: int64(a.S.From), To: int64(a.S.To),
		HistogramInterval: int64(a.S.Interval), Order: order}
	for _, ag := range a.S.Aggs {
		sr := simenv.SearchReq{Aggs: []simenv.AggReq{ag}}
		req.Aggs = append(req.Aggs, sr.Proto().Aggs[0])
	}
	// everything acknowledged so far is to be part of the answer: it has to be through the index workers
	// (acknowledged is not yet visible), whatever the script did before
	if res := r.st.WaitIdle(opTimeout); res != "done" {
		if res == "timeout" {
			r.violate("hang", "WaitIdle did not finish\n%s", r.s.DumpTasks())
		}
		return
	}
	// "the fractions that existed when it was started"
	r.asyncBase[a.ID] = len(r.bulkOrder)
	r.asyncFracs[a.ID] = map[string]bool{}
	for _, f := range r.st.Fracs() {
		r.asyncFracs[a.ID][f.Name] = true
	}
	var rerr error
	api := r.st.API
	status := r.st.Call(opTimeout, func() { _, rerr = api.StartAsyncSearch(context.Background(), req) })
	r.logf("async_start %s -> %s err=%v", a.ID, status, rerr)
	if status == "done" && rerr == nil {
		r.asyncs[a.ID] = a
	} else if status == "done" && rerr != nil {
		r.violate("api_error", "StartAsyncSearch(%q) failed: %v", req.Query, rerr)
	} else if status == "dead" {
		// the request may or may not have been persisted before the crash
		r.asyncs[a.ID+"?"] = a
	}
}

func (r *runner) asyncWait(a *AsyncReq) {
	if !r.st.Loaded {
		r.start()
		if !r.st.Loaded {
			return
		}
	}
	_, certain := r.asyncs[a.ID]
	_, maybe := r.asyncs[a.ID+"?"]
	if !certain && !maybe {
		return
	}
	deadline := time.Now().Add(time.Hour)
	var resp *pb.FetchAsyncSearchResultResponse
	for {
		var rerr error
		api := r.st.API
		status := r.st.Call(opTimeout, func() {
			resp, rerr = api.FetchAsyncSearchResult(context.Background(), &pb.FetchAsyncSearchResultRequest{SearchId: a.ID})
		})
		if status == "dead" {
			r.checkUnplannedDeath()
			return
		}
		if status == "timeout" {
			r.violate("hang", "FetchAsyncSearchResult did not return\n%s", r.s.DumpTasks())
			return
		}
		if rerr != nil {
			if maybe && !certain && strings.Contains(rerr.Error(), "not found") {
				r.s.Probe("async_request_lost_before_ack")
				return
			}
			r.violate("async_lost", "asynchronous search %s is unknown after restart: %v", a.ID, rerr)
			return
		}
		if resp.Done {
			break
		}
		if time.Now().After(deadline) {
			r.violate("async_stuck", "asynchronous search %s not done one simulated hour after the last fault\n%s", a.ID, r.s.DumpTasks())
			return
		}
		r.s.SleepSim(200 * time.Millisecond)
	}
	if r.c.Oracles.Retention {
		// fractions the search had listed may have been retired before it reached them: what it lists must have been
		// submitted and must match, once each and in the requested order; completeness is not demanded
		var prev seq.ID
		for i, h := range simenv.DecodeSearch(resp.Response).Hits {
			d := r.issued[mid(h.ID)]
			if d == nil {
				r.violate("unknown_id", "asynchronous search %q lists %s, which was never submitted", a.S.Q.SeqQL(), mid(h.ID))
				return
			}
			if !a.S.Q.Match(d) || d.MID < a.S.From || d.MID > a.S.To {
				r.violate("search_wrong_doc", "asynchronous search %q lists %s, which does not match", a.S.Q.SeqQL(), mid(h.ID))
				return
			}
			if i > 0 && (h.ID == prev || seq.Less(h.ID, prev) != a.S.Desc) {
				r.violate("search_order", "asynchronous search %q: ids %v, %v out of order or repeated (desc=%v)", a.S.Q.SeqQL(), prev, h.ID, a.S.Desc)
				return
			}
			prev = h.ID
		}
		r.s.Probe("async_under_retention_done")
		return
	}
	// expected: the synchronous answer over the fractions that existed when the search was started.
	// Documents submitted before the start (all acknowledged and indexed then) must be there. A document
	// submitted later may be part of the answer only if it went into a fraction that existed at the
	// start (the active one of that moment); one that sits in a fraction created later must not.
	acked, base := model.NewCorpus(), model.NewCorpus()
	late := map[model.ID]bool{}
	allAcked := true
	for i, bn := range r.bulkOrder {
		b := r.bulks[bn]
		if b.status == "acked" {
			for _, d := range b.docs {
				acked.Add(d)
			}
		} else {
			allAcked = false
		}
		for _, d := range b.docs {
			if i < r.asyncBase[a.ID] {
				if b.status == "acked" {
					base.Add(d)
				}
			} else {
				late[d.ID()] = true
			}
		}
	}
	got := simenv.DecodeSearch(resp.Response)
	s := *a.S
	s.Size = math.MaxInt32
	var lateHits []model.ID
	for _, h := range got.Hits {
		if late[mid(h.ID)] {
			lateHits = append(lateHits, mid(h.ID))
		}
	}
	if len(lateHits) > 0 {
		// where do they live? (a synchronous listing names the fraction of every hit)
		ls := s
		ls.Size = 100000
		ls.Interval, ls.Aggs, ls.WithTotal = 0, nil, false
		lres, status, err := r.st.Search(opTimeout, toReq(&ls))
		if status == "dead" {
			r.checkUnplannedDeath()
			return
		}
		if status != "done" || err != nil {
			r.violate("api_error", "listing search after asynchronous search failed: %v %v", status, err)
			return
		}
		where := map[model.ID]string{}
		for _, h := range lres.Hits {
			where[mid(h.ID)] = h.Hint
		}
		for _, id := range lateHits {
			f, ok := where[id]
			if !ok {
				r.violate("async_result", "asynchronous search %s %q lists %s, which the synchronous search does not find", a.ID, s.Q.SeqQL(), id)
				return
			}
			if !r.asyncFracs[a.ID][f] {
				r.violate("async_result", "asynchronous search %s %q lists %s of fraction %s, which was created after the search was started (fractions at start: %v)", a.ID, s.Q.SeqQL(), id, f, sortedKeys(r.asyncFracs[a.ID]))
				return
			}
			base.Add(r.issued[id])
		}
		r.s.Probe("async_late_doc_in_old_fraction")
	}
	if len(late) > 0 {
		r.s.Probe("async_with_late_ingestion")
	}
	want := base.Matching(s.Q, s.From, s.To, s.Desc)
	if len(got.Hits) != len(want) {
		r.violate("async_result", "asynchronous search %q returned %d ids, synchronous/model answer has %d", s.Q.SeqQL(), len(got.Hits), len(want))
		return
	}
	for i, h := range got.Hits {
		if mid(h.ID) != want[i].ID() {
			r.violate("async_result", "asynchronous search %q: position %d is %s, model says %s", s.Q.SeqQL(), i, mid(h.ID), want[i].ID())
			return
		}
	}
	if s.Interval > 0 {
		wh := model.Hist(want, s.Interval)
		for k, v := range wh {
			if got.Hist[k] != v {
				r.violate("async_result", "asynchronous search %q: histogram bucket %d holds %d, model %d", s.Q.SeqQL(), k, got.Hist[k], v)
				return
			}
		}
		for k, v := range got.Hist {
			if v != 0 && wh[k] == 0 {
				r.violate("async_result", "asynchronous search %q: unexpected histogram bucket %d=%d", s.Q.SeqQL(), k, v)
				return
			}
		}
	}
	gotAggs := padAggs(got.Aggs, len(s.Aggs))
	if len(gotAggs) != len(s.Aggs) {
		r.violate("async_result", "asynchronous search %q: %d aggregations requested, %d returned", s.Q.SeqQL(), len(s.Aggs), len(got.Aggs))
		return
	}
	for i, ag := range s.Aggs {
		if r.c.Oracles.NoAggs {
			break
		}
		if msg := checkAgg(ag, gotAggs[i], want); msg != "" {
			r.violate("async_result", "asynchronous search %q agg %+v: %s", s.Q.SeqQL(), ag, msg)
			return
		}
	}
	// and the synchronous search itself (over everything that is stored by now)
	if allAcked {
		// (bulks acknowledged after the start may still be on their way through the index workers)
		if res := r.st.WaitIdle(opTimeout); res == "timeout" {
			r.violate("hang", "WaitIdle did not finish\n%s", r.s.DumpTasks())
			return
		} else if res != "done" {
			return
		}
		s.Size = 100000
		s.WithTotal = true
		r.compareSearch("sync-vs-async", &s, acked)
	}
	r.logf("async %s done and equal: %d ids", a.ID, len(want))
}

func sortedKeys(m map[string]bool) []string {
	out := make([]string, 0, len(m))
	for k := range m {
		out = append(out, k)
	}
	sort.Strings(out)
	return out
}

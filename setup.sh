#!/bin/bash
# Builds the verification framework from files on disk only (offline).
set -e
cd "$(dirname "$0")"
export GOFLAGS=-mod=mod GOPROXY=off GOSUMDB=off GOTOOLCHAIN=local PATH=/opt/veriftools/go1.26.8/bin:$PATH
mkdir -p bin evidence replays
(cd tools/instrument && go build -o ../../bin/instrument .)
(cd cmd/verif && go build -o ../../bin/verif .)
(cd tools/mutate && go build -o ../../bin/mutate .)
echo "setup ok: $(ls bin | tr '\n' ' ')"

#!/usr/bin/env python3
"""Mechanical mutation sweep (sensitivity measurement, DESIGN.md 9).

Samples mutation points of seq-db source files with bin/mutate, and for each mutant that still
compiles and passes the tests of the touched package runs the quick checks of the properties the
file is anchored in. Works on /repo's working tree (one mutant at a time, reverted afterwards);
nothing is committed there.

usage: mutation_sweep.py <how many> <seed> <out.jsonl> [budget seconds per check]
"""
import json, os, random, subprocess, sys, time

REPO = "/repo"
VERIF = os.path.dirname(os.path.dirname(os.path.abspath(__file__)))
# file -> (test package(s), test -run filter or None, properties whose checks look at it)
FILES = {
    "frac/active.go": (["./frac/", "./fracmanager/"], None, ["C01", "C07"]),
    "frac/active_writer.go": (["./frac/"], None, ["C01"]),
    "frac/file_writer.go": (["./frac/"], None, ["C01"]),
    "frac/active_indexer.go": (["./frac/", "./fracmanager/"], None, ["C07", "C17"]),
    "frac/active_lids.go": (["./frac/"], None, ["C07", "C03"]),
    "frac/active_index.go": (["./frac/", "./fracmanager/"], None, ["C07", "C03"]),
    "frac/active_docs_positions.go": (["./frac/"], None, ["C17", "C07"]),
    "frac/meta_data_collector.go": (["./frac/"], None, ["C17", "C03"]),
    "frac/active_sealer.go": (["./frac/", "./fracmanager/"], None, ["C08", "C03"]),
    "frac/disk_blocks_producer.go": (["./frac/", "./fracmanager/"], None, ["C03", "C08"]),
    "frac/disk_blocks_writer.go": (["./frac/", "./fracmanager/"], None, ["C08", "C03"]),
    "frac/sealed.go": (["./frac/", "./fracmanager/"], None, ["C15", "C03"]),
    "frac/sealed_index.go": (["./frac/", "./fracmanager/"], None, ["C03", "C14"]),
    "frac/sealed_loader.go": (["./frac/", "./fracmanager/"], None, ["C03"]),
    "frac/info.go": (["./frac/", "./fracmanager/"], None, ["C14"]),
    "frac/lids/chunks.go": (["./frac/...", "./fracmanager/"], None, ["C03"]),
    "frac/lids/table.go": (["./frac/...", "./fracmanager/"], None, ["C03"]),
    "frac/lids/iterator_desc.go": (["./frac/...", "./fracmanager/"], None, ["C03", "C14"]),
    "frac/token/table.go": (["./frac/...", "./fracmanager/"], None, ["C03"]),
    "frac/processor/search.go": (["./frac/...", "./fracmanager/"], None, ["C03", "C06"]),
    "frac/processor/aggregator.go": (["./frac/...", "./fracmanager/"], None, ["C06", "C03"]),
    "fracmanager/proxy_frac.go": (["./fracmanager/"], None, ["C07", "C15"]),
    "fracmanager/fracmanager.go": (["./fracmanager/"], None, ["C15", "C07"]),
    "fracmanager/loader.go": (["./fracmanager/"], None, ["C15", "C01"]),
    "fracmanager/searcher.go": (["./fracmanager/"], None, ["C05", "C03"]),
    "fracmanager/fetcher.go": (["./fracmanager/"], None, ["C03", "C07"]),
    "fracmanager/async_searcher.go": (["./fracmanager/"], None, ["C19"]),
    "fracmanager/sealed_frac_cache.go": (["./fracmanager/"], None, ["C15", "C14"]),
    "seq/qpr.go": (["./seq/", "./proxy/search/"], None, ["C05", "C06"]),
    "seq/mids_distribution.go": (["./seq/", "./fracmanager/"], None, ["C14"]),
    "util/bitmask.go": (["./util/", "./seq/"], None, ["C14"]),
    "cache/cache.go": (["./cache/"], "TestCacheSize|TestClean", ["C18"]),
    "cache/cleaner.go": (["./cache/"], "TestCacheSize|TestClean", ["C18"]),
    "proxy/bulk/seqdb_client.go": (["./proxy/bulk/"], None, ["C09"]),
    "proxy/bulk/write_status.go": (["./proxy/bulk/"], None, ["C09"]),
    "proxy/bulk/ingestor.go": (["./proxy/bulk/", "./proxyapi/"], None, ["C10"]),
    "proxy/bulk/processor.go": (["./proxy/bulk/", "./proxyapi/"], None, ["C10"]),
    "proxyapi/http_bulk.go": (["./proxyapi/"], None, ["C10"]),
    "proxy/search/ingestor.go": (["./proxy/search/", "./proxyapi/"], None, ["C16", "C05"]),
    "proxy/search/merged_docs_iterator.go": (["./proxy/search/"], None, ["C16"]),
    "proxy/search/docs_iterator.go": (["./proxy/search/"], None, ["C16"]),
    "proxy/search/async.go": (["./proxy/search/"], None, ["C19"]),
    "storeapi/docs_stream.go": (["./storeapi/"], None, ["C03", "C07"]),
    "storeapi/grpc_search.go": (["./storeapi/"], None, ["C16", "C06"]),
}
GOENV = dict(os.environ, GOFLAGS="-mod=mod", GOPROXY="off")


def sh(cmd, cwd=None, env=None, timeout=900):
    try:
        p = subprocess.run(cmd, cwd=cwd, env=env, stdout=subprocess.PIPE, stderr=subprocess.STDOUT, timeout=timeout, text=True)
        return p.returncode, p.stdout
    except subprocess.TimeoutExpired as e:
        return 124, (e.stdout or "") if isinstance(e.stdout, str) else "timeout"


def clean():
    sh(["git", "checkout", "--", "."], cwd=REPO)
    rc, out = sh(["git", "status", "--short"], cwd=REPO)
    assert out.strip() == "", "repo not clean: " + out


def main():
    n, seed, outp = int(sys.argv[1]), int(sys.argv[2]), sys.argv[3]
    budget = sys.argv[4] if len(sys.argv) > 4 else "20"
    clean()
    points = []
    for f in sorted(FILES):
        rc, out = sh([VERIF + "/bin/mutate", "-file", f, "-list"], cwd=REPO)
        for k in range(int(out.strip() or 0)):
            points.append((f, k))
    random.Random(seed).shuffle(points)
    done = 0
    with open(outp, "a") as fout:
        for f, k in points:
            if done >= n:
                break
            pkgs, runf, props = FILES[f]
            rc, desc = sh([VERIF + "/bin/mutate", "-file", f, "-n", str(k)], cwd=REPO)
            rec = {"file": f, "point": k, "mutation": desc.strip(), "t": time.strftime("%H:%M:%S")}
            try:
                rc, out = sh(["go", "build", "./..."], cwd=REPO, env=GOENV)
                if rc != 0:
                    rec["result"] = "does_not_compile"
                    continue  # not counted
                cmd = ["go", "test", "-vet=off", "-count=1", "-timeout", "5m"] + (["-run", runf] if runf else []) + pkgs
                rc, out = sh(cmd, cwd=REPO, env=GOENV, timeout=600)
                if rc != 0:
                    rec["result"] = "killed_by_existing_tests"
                    done += 1
                    continue
                rec["result"] = "survived"
                rec["checks"] = {}
                for p in props:
                    rc, out = sh([VERIF + "/verif", "check", p, "--tier", "quick", "--budget", budget], cwd=VERIF, timeout=1500)
                    clause = ""
                    for l in out.splitlines():
                        if "clause=" in l:
                            clause = l.split("clause=", 1)[1][:160]
                            break
                    rec["checks"][p] = {"exit": rc, "clause": clause}
                    if rc == 1:
                        rec["result"] = "killed_by_check"
                        rec["killed_by"] = p
                        break
                done += 1
            finally:
                clean()
                sh(["rm", "-rf", VERIF + "/replays"])
                sh(["git", "checkout", "evidence"], cwd=VERIF)
                fout.write(json.dumps(rec) + "\n")
                fout.flush()
                print(rec.get("result"), rec["mutation"][:120], rec.get("killed_by", ""), flush=True)


if __name__ == "__main__":
    main()

#!/usr/bin/env python3
"""Generates /verif/MANIFEST.json from the table below (kept in one place so it stays valid)."""
import json, os

NA = {
 "C02": "pure function of (corpus, query, range, order, limit): no schedule, clock, fault or history is quantified; input generation inside a simulator would be fuzzing in simulator vocabulary",
 "C04": "outcome is a pure function of (corpus, ID list); the failing inputs named in the property are input relations, not schedules or faults (absent/border IDs are nevertheless part of every fetch workload of the store checks)",
 "C11": "agreement of two pure tokenisations (index side vs query side) over strings: no schedule, time, I/O or peers",
 "C12": "parser totality and preservation of boolean meaning are properties of a pure function from strings/trees",
 "C13": "glob/range matching and dictionary narrowing are pure functions of (pattern, token set, block layout)",
 "C20": "the fields projection is a pure function of (document bytes, field list)",
}

# property -> (engine, level, design_ref, technique, text, note)
CHECKS = {
 "C01": ("storesim", "fault_enumeration", "DESIGN.md 7/C01",
   "deterministic simulation: seeded crash-point and power-loss-image search over ingest/restart histories of the real store on a simulated disk, refinement against a reference model",
   "Seeded search over ingest histories x crash points (k-th write/sync/any mutating disk operation of the write path, power-loss images with lost and torn tails, process exit) x 1-4 restart+ingest rounds on the real FracManager+GrpcV1 running on a simulated disk under a seeded scheduler; after every restart all acknowledged documents must be searchable by every token and fetchable byte for byte, unacknowledged bulks all-or-none, the store must come back up. Evidence, not proof: thousands of distinct histories per minute, every failure replays from its file.",
   "Trusted: the simulator (scheduler, simos durability model: ordered namespace journal + per-file prefix of unsynced writes + torn next write), the instrumenter's rewrites, the reference model. Not covered: bit-rot, non-journaled directory semantics, gRPC framing."),
}

def main():
    checks = []
    for pid, (engine, level, ref, tech, text, note) in sorted(CHECKS.items()):
        checks.append({
            "property_id": pid,
            "quick_cmd": f"./verif check {pid} --tier quick",
            "thorough_cmd": f"./verif check {pid} --tier thorough",
            "evidence_file": f"/verif/evidence/{pid}.json",
            "replay_cmd_template": "./verif replay {path}",
            "engine": engine,
            "level_claimed": {"category": level, "text": text, "design_ref": ref},
            "level_note": note,
            "technique": tech,
        })
    na = [{"property_id": p, "reason": r} for p, r in sorted(NA.items())]
    pending = sorted(set(f"C{n:02d}" for n in range(1, 21)) - set(CHECKS) - set(NA))
    for p in pending:
        na.append({"property_id": p, "reason": "not claimed at this commit: the simulation check for this property is not registered yet (planned in DESIGN.md section 7)"})
    engines = {}
    for pid, c in CHECKS.items():
        engines.setdefault(c[0], []).append(pid)
    m = {
        "version": 1,
        "setup_cmd": "./setup.sh",
        "hooks": {
            "guard": "none in /repo: instrumentation is a build overlay generated at check time by /verif/tools/instrument from /repo's working tree (virtual package github.com/ozontech/seq-db/verifsim + rewritten copies in a scratch directory)",
            "enable": "go1.26.8 test -c -overlay <scratch>/overlay.json -vet=off (done by ./verif check)",
            "baseline_off_cmd": "cd /repo && go test -vet=off -count=1 -timeout 25m ./...",
            "source_commits": [],
            "add_only": True,
        },
        "engines": [{"name": e, "path": f"/verif/harness/{e}", "serves_properties": sorted(ps),
                     "kind_free_text": "deterministic simulation engine (real seq-db code on verifsim scheduler/simos disk)"} for e, ps in sorted(engines.items())],
        "checks": checks,
        "not_applicable": sorted(na, key=lambda x: x["property_id"]),
        "notes": "All checks: exit 0 held, exit 1 + 'VIOLATION property=<id> replay=<path>', exit 2 infrastructure trouble. Genuine defects found and repaired are listed in /verif/known_findings.json (status=fixed).",
    }
    with open(os.path.join(os.path.dirname(__file__), "..", "MANIFEST.json"), "w") as f:
        json.dump(m, f, indent=1)
        f.write("\n")

if __name__ == "__main__":
    main()

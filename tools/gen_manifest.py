#!/usr/bin/env python3
"""Generates /verif/MANIFEST.json from the table below (kept in one place so it stays valid)."""
import json, os

NA = {
 "C02": "pure function of (corpus, query, range, order, limit): no schedule, clock, fault or history is quantified; input generation inside a simulator would be fuzzing in simulator vocabulary",
 "C04": "outcome is a pure function of (corpus, ID list); the failing inputs named in the property are input relations, not schedules or faults (absent/border IDs are nevertheless part of every fetch workload of the store checks)",
 "C11": "agreement of two pure tokenisations (index side vs query side) over strings: no schedule, time, I/O or peers",
 "C12": "parser totality and preservation of boolean meaning are properties of a pure function from strings/trees",
 "C13": "glob/range matching and dictionary narrowing are pure functions of (pattern, token set, block layout)",
 "C20": "the fields projection is a pure function of (document bytes, field list)",
}

# property -> (engine, level, design_ref, technique, text, note)
TRUST = "Trusted: the simulator (seeded scheduler over testing/synctest, simos durability model: ordered namespace journal + per-file prefix of unsynced writes + torn next write), the instrumenter's rewrites, the reference model (independent evaluator for the query subset used). Not covered: data races at memory-access granularity, bit-rot, non-journaled directory semantics, gRPC/HTTP framing. A clean batch is evidence, not proof."
T = "deterministic simulation with fault injection: "
CHECKS = {
 "C01": ("storesim", "fault_enumeration", "DESIGN.md 7/C01", T + "seeded crash-point / power-loss-image search over ingest+restart histories of the real store on a simulated disk, refinement against a reference model",
   "Seeded search over ingest histories x crash points (k-th write/sync/any mutating disk operation of the write path, power-loss images with lost and torn tails, process exit; in 15% one failing write or fsync after which the store goes on) x 1-4 restart+ingest rounds on the real FracManager+GrpcV1; after every restart all acknowledged documents are searchable by every token and fetchable byte for byte, unacknowledged bulks all-or-none, the store comes back up.", TRUST),
 "C03": ("storesim", "exploration", "DESIGN.md 7/C03", T + "seeded corpora and knob swarm; the same battery answered by active / sealed-preloaded / sealed-from-file fractions under timer-driven cache eviction, compared with a reference model",
   "Seal, restart and cache eviction are driven as simulated I/O transitions and timer events; the battery must equal the model in every form; a quarter of the cases add one transient read error on the index file, or on the documents file, while the caches are refilled (nothing wrong may stay cached or pooled). Shape coverage is what the knob swarm and corpus generator reach, not exhaustive over corpora.", TRUST),
 "C05": ("storesim", "exploration", "DESIGN.md 7/C05", T + "multi-node simulation: real stores behind the real proxy client and search ingestor on a simulated transport; fraction/shard layouts are produced by simulated histories; metamorphic comparison with a single-corpus reference model incl. page-by-page walks",
   "Layouts (which fraction on which shard holds which document, active or sealed, overlapping ranges) arise from seeded ingest histories, rotations at different moments per node, restarts; the proxy's answers (top ids, totals, histograms, pages, documents stream) must equal the model over the union; documents present on several shards are listed once (counts compared when the listing covers the whole result).", TRUST),
 "C06": ("storesim", "exploration", "DESIGN.md 7/C06", T + "multi-node simulation of the merge-order facet: per-fraction partial results merged per store, shard replies merged by the proxy in simulated arrival order; every aggregation bin and histogram bucket compared with directly computed values",
   "Decides the merge-order/grouping facet of C06 (and the store<->proxy bin conversion); value coverage is what the generator produces (integers -5..40 as numeric field, three group values, not-exists cases).", TRUST),
 "C07": ("storesim", "exploration", "DESIGN.md 7/C07", T + "seeded schedule exploration (pre-emption at every lock/channel/wait and at statement level) of writers, readers, maintenance loop and cache cleaner on the real store; invariants inside readers, model equality at quiescence, liveness on the simulated clock",
   "Explores interleavings of critical sections, channel hand-offs and statements; checks no panic/deadlock/error, every returned ID submitted+matching+fetchable with exact bytes, full equality with the sequential model once writers are idle; some reader searches are built to fail inside the fractions, and at quiescence no search worker slot or in-flight count of the store API may be held (a slot never given back is deadlock by exhaustion). Does not detect data races as such.", TRUST),
 "C08": ("storesim", "fault_enumeration", "DESIGN.md 7/C08", T + "crash-point enumeration (k-th disk operation of a seal, consecutive seeds walk k) and k-th-I/O-error injection on the index/sorted-docs outputs, restart, refinement against the model",
   "Every seal is hit by exactly one planned fault: crash/exit at the k-th mutating disk operation or a failing write/sync/rename/create; the published fraction is validated at once and after restart; all documents must remain searchable and fetchable.", TRUST),
 "C14": ("storesim", "exploration", "DESIGN.md 7/C14", T + "simulated-clock exploration: document times relative to the fake clock, clock jumps, restart with tampered .frac-cache; results compared with a model that examines every document",
   "Decides the clock/restart facet: the per-minute distribution only exists relative to the clock (10-minute rule, 24h clip) and is restored from persisted info; range queries around borders must equal the model. The pure bitmap arithmetic over all inputs is not enumerated.", TRUST),
 "C15": ("storesim", "fault_enumeration", "DESIGN.md 7/C15", T + "seeded crash points at namespace operations (create/rename/remove/dirsync) during create/rotate/seal/retention/.frac-cache cycles, power-loss images, tampered cache file; invariants over the set of served fractions after restart",
   "After every crash image the store starts; each known fraction is wholly served or wholly gone; served fractions are the newest; a fraction with .del files in the image never serves again. Sub-profiles: two seals in flight at the crash, searches that hold the oldest fraction over several retention passes, cache file left valid with the paths of another location.", TRUST),
 "C17": ("storesim", "exploration", "DESIGN.md 7/C17", T + "seeded re-delivery histories incl. concurrent repeats under schedule exploration, seal and restart; set-semantics reference model",
   "Re-delivered documents are listed once and fetch their original bytes; totals, histograms, aggregations and document counts count them once while all copies sit in one fraction; includes documents with nested elements (several metas under one ID).", TRUST),
 "C09": ("proxysim", "fault_enumeration", "DESIGN.md 7/C09", T + "scripted per-call outcomes (success/error/timeout/late success/lost reply) on a simulated transport against the real bulk client and real circuit breaker under a fake clock; oracle over the recorded call log",
   "For every acknowledged bulk the stubs' call log must contain, for one hot shard (and one long-term shard when configured), a successful delivery of exactly that payload to every replica; retries are bounded; once faults stop a bulk goes through within a bounded number of breaker sleep windows. Request deadlines and cancellations are part of the fault space; a fifth of the context-free cases hand documents to the real bulk.Ingestor (pooled compressor) with 2-3 clients at once. A second lane runs the client against real stores that crash in the middle of their writes, lose replies and are partitioned: after recovery every acknowledged bulk sits byte for byte on every replica of some hot (and long-term) shard.", TRUST),
 "C10": ("proxysim", "exploration", "DESIGN.md 7/C10", T + "simulated request-body stream (seeded chunking, cut, read error, gzip) and simulated clock against the real HTTP bulk handler and bulk ingestor; independent framing parser and time rule as oracle; metamorphic equality across chunkings",
   "Decides the stream/clock facet of C10: the line reader hands out slices of a reused buffer, so what is stored may depend on how the body arrives; the receive time is the clock; the storage call can fail. Valid object documents must be stored verbatim once each, timed by rule, or nothing stored; identical for every chunking; also with one long-lived ingestor across requests at different simulated times and with 2-4 requests in flight at once after a failed store call (plain or gzip bodies, the latter after a request that announces gzip and is not); slow uploads (time passes between chunks: the time of receipt decides); the configuration passes through the defaulting of proxyapi.NewIngestor, zero drifts included; after every request the ingestor holds all its rate-limit tickets again. The full input space of JSON shapes is not claimed.", TRUST),
 "C16": ("proxysim", "fault_enumeration", "DESIGN.md 7/C16", T + "scripted per-call store behaviours and broken fetch streams on a simulated transport against the real search ingestor and docs iterators; oracle computed from the script and a model corpus",
   "For every assignment of per-call behaviours the proxy's answer is an error, or the correct merged top over exactly the shards that had an answering replica - flagged partial iff one had none - with the long-term tier consulted iff a hot store declares the range too old, and the i-th document belonging to the i-th id, or empty only if a fetch call that was asked for it did not deliver it; 15% of the requests go through the gRPC layer (proxyapi Export), whose stream must not end with status OK after a partial search or after its deadline cut the stream, another 15% through the Search/ComplexSearch handlers with their own deadline of 10-70 simulated ms; fetch streams may stall before they break; in a fifth of the cases the requests are in flight at once on one ingestor. A second lane runs the same proxy code against real stores (hot tier under retention, long-term tier, stores killed / losing power / partitioned): unflagged answers must be complete, and a mature hot store must declare ranges older than its oldest remaining fraction.", TRUST),
 "C18": ("cachesim", "exploration", "DESIGN.md 7/C18", T + "seeded schedule exploration of concurrent cache callers and the cleaner on the real cache package; per-call invariants, accounting/bucket/limit invariants at quiescence, porcupine linearizability check of the lookup history against a register-with-eviction model",
   "Explores interleavings of getOrCreate/save/recover/Cleanup/Rotate/ReleaseBuckets at lock and statement granularity: every lookup returns a finished value of the requested (cache,key) from a successful load, failures reach exactly the caller that ran the loader, no caller is parked forever, accounted size equals the sum of live entries, the limits of cleaners built by the store's own wiring (FillConfigWithDefault + NewCacheMaintainer) are positive and sum to at most the configured cache size, live caches stay managed, released ones are dropped, a quiet cleaning pass restores the limit.", TRUST),
 "C19": ("storesim", "fault_enumeration", "DESIGN.md 7/C19", T + "crash after the k-th persisted partial result / inside the atomic file write of the asynchronous searcher, restart, bounded liveness on the simulated clock, equality with the synchronous search and the model",
   "A restart is injected after any number of persisted partial results; the request must survive, resume, report done within one simulated hour and return the same ids, histogram and aggregations as the synchronous search over the fractions that existed at the start (ingestion goes on next to queued searches; late arrivals, gap ranges, a bulk retried across a rotation, one transient read error). A second lane drives the proxy's asynchronous fan-out over several shards of real stores with store failures while the searches run and are polled.", TRUST),
}

def main():
    checks = []
    for pid, (engine, level, ref, tech, text, note) in sorted(CHECKS.items()):
        checks.append({
            "property_id": pid,
            "quick_cmd": f"./verif check {pid} --tier quick",
            "thorough_cmd": f"./verif check {pid} --tier thorough",
            "evidence_file": f"/verif/evidence/{pid}.json",
            "replay_cmd_template": "./verif replay {path}",
            "engine": engine,
            "level_claimed": {"category": level, "text": text, "design_ref": ref},
            "level_note": note,
            "technique": tech,
        })
    na = [{"property_id": p, "reason": r} for p, r in sorted(NA.items())]
    pending = sorted(set(f"C{n:02d}" for n in range(1, 21)) - set(CHECKS) - set(NA))
    for p in pending:
        na.append({"property_id": p, "reason": "not claimed at this commit: the simulation check for this property is not registered yet (planned in DESIGN.md section 7)"})
    engines = {}
    for pid, c in CHECKS.items():
        engines.setdefault(c[0], []).append(pid)
    m = {
        "version": 1,
        "setup_cmd": "./setup.sh",
        "hooks": {
            "guard": "none in /repo: instrumentation is a build overlay generated at check time by /verif/tools/instrument from /repo's working tree (virtual package github.com/ozontech/seq-db/verifsim + rewritten copies in a scratch directory)",
            "enable": "go1.26.8 test -c -overlay <scratch>/overlay.json -vet=off (done by ./verif check)",
            "baseline_off_cmd": "cd /repo && go test -vet=off -count=1 -timeout 25m ./...",
            "source_commits": [],
            "add_only": True,
        },
        "engines": [{"name": e, "path": f"/verif/harness/{e}", "serves_properties": sorted(ps),
                     "kind_free_text": "deterministic simulation engine (real seq-db code on verifsim scheduler/simos disk)"} for e, ps in sorted(engines.items())],
        "checks": checks,
        "not_applicable": sorted(na, key=lambda x: x["property_id"]),
        "notes": "All checks: exit 0 held, exit 1 + 'VIOLATION property=<id> replay=<path>', exit 2 infrastructure trouble. Genuine defects found and repaired are listed in /verif/known_findings.json (status=fixed).",
    }
    with open(os.path.join(os.path.dirname(__file__), "..", "MANIFEST.json"), "w") as f:
        json.dump(m, f, indent=1)
        f.write("\n")

if __name__ == "__main__":
    main()

module verif/tools/mutate

go 1.26

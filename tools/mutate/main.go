// Command mutate applies one mechanical mutation to a Go source file in place (sensitivity measurement:
// see DESIGN.md 9). It lists the candidate points of the file in a fixed order and applies point -n.
//
//	mutate -file frac/active.go -list          number of candidate points
//	mutate -file frac/active.go -n 17          apply point 17, print its description
//
// Operators: relational (< <= > >= == !=) and logical (&& ||) replacement, +1/-1 removal,
// deletion of a call statement or a defer, `return err` -> `return nil` inside `if err != nil`.
// Lines that only log or count metrics are skipped.
package main

import (
	"flag"
	"fmt"
	"go/ast"
	"go/parser"
	"go/token"
	"os"
	"strings"
)

type point struct {
	from, to int // byte range to replace
	repl     string
	desc     string
}

func main() {
	file := flag.String("file", "", "file to mutate")
	n := flag.Int("n", -1, "candidate point to apply")
	list := flag.Bool("list", false, "print the number of candidate points")
	flag.Parse()
	src, err := os.ReadFile(*file)
	if err != nil {
		fmt.Fprintln(os.Stderr, err)
		os.Exit(2)
	}
	fset := token.NewFileSet()
	f, err := parser.ParseFile(fset, *file, src, parser.ParseComments)
	if err != nil {
		fmt.Fprintln(os.Stderr, err)
		os.Exit(2)
	}
	off := func(p token.Pos) int { return fset.Position(p).Offset }
	line := func(p token.Pos) string {
		o := off(p)
		s, e := o, o
		for s > 0 && src[s-1] != '\n' {
			s--
		}
		for e < len(src) && src[e] != '\n' {
			e++
		}
		return string(src[s:e])
	}
	boring := func(p token.Pos) bool {
		l := line(p)
		return strings.Contains(l, "logger.") || strings.Contains(l, "metric") || strings.Contains(l, "zap.") || strings.Contains(l, "Stopwatch") || strings.Contains(l, "sw.") || strings.Contains(l, "m.Stop()") || strings.Contains(l, "Tracer") || strings.Contains(l, "tr.")
	}
	var pts []point
	swap := map[token.Token]string{token.LSS: "<=", token.LEQ: "<", token.GTR: ">=", token.GEQ: ">", token.EQL: "!=", token.NEQ: "==", token.LAND: "||", token.LOR: "&&"}
	ast.Inspect(f, func(nd ast.Node) bool {
		switch x := nd.(type) {
		case *ast.FuncDecl:
			if x.Body == nil {
				return false
			}
		case *ast.BinaryExpr:
			if boring(x.OpPos) {
				return true
			}
			if r, ok := swap[x.Op]; ok {
				// do not touch `err != nil` / `x == nil` checks with == / != (mostly crash or dead code)
				if id, isID := x.Y.(*ast.Ident); isID && id.Name == "nil" {
					return true
				}
				pts = append(pts, point{off(x.OpPos), off(x.OpPos) + len(x.Op.String()), r, fmt.Sprintf("%s: `%s` -> `%s`", fset.Position(x.OpPos), x.Op, r)})
			}
			if x.Op == token.ADD || x.Op == token.SUB {
				if lit, ok := x.Y.(*ast.BasicLit); ok && lit.Value == "1" {
					pts = append(pts, point{off(x.OpPos), off(lit.End()), "", fmt.Sprintf("%s: drop `%s 1`", fset.Position(x.OpPos), x.Op)})
				}
			}
		case *ast.ExprStmt:
			if _, ok := x.X.(*ast.CallExpr); ok && !boring(x.Pos()) {
				pts = append(pts, point{off(x.Pos()), off(x.End()), "", fmt.Sprintf("%s: delete statement `%s`", fset.Position(x.Pos()), strings.TrimSpace(string(src[off(x.Pos()):off(x.End())])))})
			}
		case *ast.DeferStmt:
			if !boring(x.Pos()) {
				pts = append(pts, point{off(x.Pos()), off(x.End()), "", fmt.Sprintf("%s: delete `%s`", fset.Position(x.Pos()), strings.TrimSpace(string(src[off(x.Pos()):off(x.End())])))})
			}
		case *ast.IfStmt:
			// if err != nil { ... return err } -> return nil
			be, ok := x.Cond.(*ast.BinaryExpr)
			if !ok || be.Op != token.NEQ {
				return true
			}
			if id, ok := be.X.(*ast.Ident); !ok || id.Name != "err" {
				return true
			}
			for _, st := range x.Body.List {
				if rs, ok := st.(*ast.ReturnStmt); ok && len(rs.Results) >= 1 {
					last := rs.Results[len(rs.Results)-1]
					if id, ok := last.(*ast.Ident); ok && id.Name == "err" {
						pts = append(pts, point{off(last.Pos()), off(last.End()), "nil", fmt.Sprintf("%s: `return err` -> `return nil`", fset.Position(last.Pos()))})
					}
				}
			}
		}
		return true
	})
	if *list {
		fmt.Println(len(pts))
		return
	}
	if *n < 0 || *n >= len(pts) {
		fmt.Fprintln(os.Stderr, "no such point")
		os.Exit(2)
	}
	p := pts[*n]
	out := append(append(append([]byte{}, src[:p.from]...), []byte(p.repl)...), src[p.to:]...)
	if err := os.WriteFile(*file, out, 0o644); err != nil {
		fmt.Fprintln(os.Stderr, err)
		os.Exit(2)
	}
	fmt.Println(p.desc)
}

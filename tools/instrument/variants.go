package main

// Build variants of seq-db's block-size constants. They stay constants (the package always compiles);
// only the literal of the declaration is replaced. IDsBlockSize (ids per block on the write side) and
// IDsPerBlock (read side) are one quantity under two names and change together.
func init() {
	constVariants["small"] = map[string]map[string]string{
		"github.com/ozontech/seq-db/consts": {"IDsBlockSize": "64", "IDsPerBlock": "64", "LIDBlockCap": "64", "RegularBlockSize": "1024"},
	}
	constVariants["tiny"] = map[string]map[string]string{
		"github.com/ozontech/seq-db/consts": {"IDsBlockSize": "4", "IDsPerBlock": "4", "LIDBlockCap": "8", "RegularBlockSize": "64"},
	}
}

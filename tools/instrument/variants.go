package main

// Build variants of seq-db's block-size constants. They stay constants (the package always compiles);
// only the literal of the declaration is replaced. IDsBlockSize (ids per block on the write side) and
// IDsPerBlock (read side) are one quantity under two names and change together.
func init() {
	constVariants["small"] = map[string]map[string]string{
		"github.com/ozontech/seq-db/consts": {"IDsBlockSize": "64", "IDsPerBlock": "64", "LIDBlockCap": "64", "RegularBlockSize": "1024"},
		// the fetch stream loads its first chunk of initChunkSize ids (shipped: 1000) and sizes the next ones from
		// the average document size: reachable with tens of documents
		"github.com/ozontech/seq-db/storeapi": {"initChunkSize": "16"},
		// postings of a token go to the background merge workers once more than minMergeQueue (shipped: 10000)
		// of them are queued
		"github.com/ozontech/seq-db/frac": {"minMergeQueue": "64"},
	}
	constVariants["tiny"] = map[string]map[string]string{
		"github.com/ozontech/seq-db/consts": {"IDsBlockSize": "4", "IDsPerBlock": "4", "LIDBlockCap": "8", "RegularBlockSize": "64"},
		// the cache re-creates its map once it held >= recreateThreshold entries and a cleaning pass leaves
		// at most 1/excessiveSizeFactor of them (shipped: 200 and 10): reachable with a handful of keys
		"github.com/ozontech/seq-db/cache":    {"recreateThreshold": "4", "excessiveSizeFactor": "2"},
		"github.com/ozontech/seq-db/storeapi": {"initChunkSize": "4"},
		// the writer of the sorted documents file buffers 32 MiB (bufSize in getDocBlocksWriter): with 256 bytes a seal
		// issues several writes to the file, so that a failing write can be one in the middle
		"github.com/ozontech/seq-db/frac": {"minMergeQueue": "4", ":=bufSize@active_sealer.go": "256"},
		// the collector's buffers are re-allocated smaller after defaultReuserStatsPoolSize (shipped: 200) bulks
		"github.com/ozontech/seq-db/util": {"defaultReuserStatsPoolSize": "4"},
		// a bin keeps maxHistogramSamples values exactly and replaces random ones beyond that (shipped: 8096):
		// the border and the reservoir path are reachable with tens of documents
		"github.com/ozontech/seq-db/seq": {"maxHistogramSamples": "8"},
	}
}

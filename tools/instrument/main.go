// instrument rewrites a scratch copy of seq-db packages for deterministic simulation and emits a
// `go build -overlay` file. /repo itself is never modified.
//
//	instrument -repo /repo -out <scratch> -sim /verif/sim [-variant default|small|tiny]
//
// Type information (go/packages) decides every rewrite, so new locks, goroutines, channel
// operations or file operations introduced by a change to seq-db are instrumented as well.
package main

import (
	"bytes"
	"encoding/json"
	"flag"
	"fmt"
	"go/ast"
	"go/format"
	"go/token"
	"go/types"
	"os"
	"path/filepath"
	"sort"
	"strconv"
	"strings"

	"golang.org/x/tools/go/ast/astutil"
	"golang.org/x/tools/go/packages"
)

const (
	simPkg     = "github.com/ozontech/seq-db/verifsim"
	simosPkg   = simPkg + "/simos"
	simrandPkg = simPkg + "/simrand"
	simrand2   = simPkg + "/simrandv2"
)

// packages whose goroutines, locks, channels and files are put under the simulator
var patterns = []string{
	"./cache", "./frac", "./frac/...", "./disk", "./fracmanager", "./storeapi",
	"./proxy/bulk", "./proxy/search", "./proxy/stores", "./proxyapi", "./network/circuitbreaker",
	"./util", "./bytespool", "./mappingprovider", "./seq", "./metric/...", "./conf", "./consts", "./packer",
}

// files that additionally get statement-level pre-emption points (anchors of C07 / C18)
var stmtFiles = []string{
	"frac/active.go", "frac/active_indexer.go", "frac/active_lids.go", "frac/active_token_list.go",
	"frac/active_ids.go", "frac/active_index.go", "frac/active_docs_positions.go", "frac/inverser.go",
	"frac/sealed.go", "frac/file_writer.go", "frac/active_writer.go",
	"fracmanager/proxy_frac.go", "fracmanager/fracmanager.go", "fracmanager/searcher.go", "fracmanager/fetcher.go",
	"cache/cache.go", "cache/cleaner.go",
	// helpers that every seal and every block load goes through: state shared between two of them (a package-level
	// scratch buffer, a shared options object) only shows when one is pre-empted between two plain statements
	"packer/bytes_packer.go", "disk/block_former.go", "disk/blocks_writer.go", "frac/disk_blocks_writer.go",
	"frac/token/block_loader.go", "frac/token/table_loader.go",
}

type site struct {
	ID   uint32 `json:"id"`
	Pos  string `json:"pos"`
	Kind string `json:"kind"`
}

var (
	sites    []site
	warnings []string
	counts   = map[string]int{}
)

func newSite(fset *token.FileSet, pos token.Pos, kind string, repo string) *ast.BasicLit {
	p := fset.Position(pos)
	rel, _ := filepath.Rel(repo, p.Filename)
	id := uint32(len(sites) + 16) // ids below 16 are reserved for the runtime
	sites = append(sites, site{ID: id, Pos: fmt.Sprintf("%s:%d", rel, p.Line), Kind: kind})
	counts[kind]++
	return &ast.BasicLit{Kind: token.INT, Value: strconv.Itoa(int(id))}
}

func sel(pkg, name string) *ast.SelectorExpr {
	return &ast.SelectorExpr{X: ast.NewIdent(pkg), Sel: ast.NewIdent(name)}
}

func call(fun ast.Expr, args ...ast.Expr) *ast.CallExpr {
	return &ast.CallExpr{Fun: fun, Args: args}
}

func main() {
	repo := flag.String("repo", "/repo", "seq-db working tree")
	out := flag.String("out", "", "scratch output directory")
	sim := flag.String("sim", "/verif/sim", "directory holding verifsim sources, overlay files and export files")
	variant := flag.String("variant", "default", "constant variant: default|small|tiny")
	flag.Parse()
	// go/packages resolves the "go" command through this process's PATH
	os.Setenv("PATH", "/opt/veriftools/go1.26.8/bin:"+os.Getenv("PATH"))
	if *out == "" {
		fmt.Fprintln(os.Stderr, "instrument: -out required")
		os.Exit(2)
	}
	if err := run(*repo, *out, *sim, *variant); err != nil {
		fmt.Fprintln(os.Stderr, "instrument:", err)
		os.Exit(2)
	}
}

func run(repo, out, sim, variant string) error {
	repo, _ = filepath.Abs(repo)
	cfg := &packages.Config{
		Mode: packages.NeedName | packages.NeedFiles | packages.NeedCompiledGoFiles | packages.NeedSyntax |
			packages.NeedTypes | packages.NeedTypesInfo | packages.NeedImports,
		Dir: repo,
		Env: append(os.Environ(), "GOFLAGS=-mod=mod", "GOPROXY=off", "GOSUMDB=off", "GOTOOLCHAIN=local", "PATH=/opt/veriftools/go1.26.8/bin:"+os.Getenv("PATH")),
	}
	pkgs, err := packages.Load(cfg, patterns...)
	if err != nil {
		return err
	}
	overlay := map[string]string{}
	stmtSet := map[string]bool{}
	for _, f := range stmtFiles {
		stmtSet[filepath.Join(repo, f)] = true
	}
	sort.Slice(pkgs, func(i, j int) bool { return pkgs[i].PkgPath < pkgs[j].PkgPath })
	for _, p := range pkgs {
		if len(p.Errors) > 0 {
			return fmt.Errorf("package %s does not type-check: %v", p.PkgPath, p.Errors[0])
		}
		if strings.HasSuffix(p.PkgPath, "/mock") {
			continue
		}
		for i, file := range p.Syntax {
			name := p.CompiledGoFiles[i]
			if !strings.HasPrefix(name, repo+"/") || !strings.HasSuffix(name, ".go") {
				continue // cgo-generated
			}
			changed, err := rewriteFile(p, file, name, repo, stmtSet[name], variant)
			if err != nil {
				return fmt.Errorf("%s: %w", name, err)
			}
			if !changed {
				continue
			}
			var buf bytes.Buffer
			if err := format.Node(&buf, p.Fset, file); err != nil {
				return fmt.Errorf("%s: print: %w", name, err)
			}
			rel, _ := filepath.Rel(repo, name)
			dst := filepath.Join(out, "src", rel)
			if err := os.MkdirAll(filepath.Dir(dst), 0o755); err != nil {
				return err
			}
			if err := os.WriteFile(dst, buf.Bytes(), 0o644); err != nil {
				return err
			}
			overlay[name] = dst
		}
	}
	// virtual package verifsim (+ subpackages)
	err = filepath.Walk(filepath.Join(sim, "verifsim"), func(path string, info os.FileInfo, err error) error {
		if err != nil {
			return err
		}
		if info.IsDir() || !strings.HasSuffix(path, ".go") {
			return nil
		}
		rel, _ := filepath.Rel(sim, path)
		overlay[filepath.Join(repo, rel)] = path
		return nil
	})
	if err != nil {
		return err
	}
	// whole-file replacements and export files: <sim>/overlay/<rel path> -> /repo/<rel path>
	ovDir := filepath.Join(sim, "overlay")
	err = filepath.Walk(ovDir, func(path string, info os.FileInfo, err error) error {
		if err != nil {
			if os.IsNotExist(err) {
				return nil
			}
			return err
		}
		if info.IsDir() || !strings.HasSuffix(path, ".go") {
			return nil
		}
		rel, _ := filepath.Rel(ovDir, path)
		overlay[filepath.Join(repo, rel)] = path
		return nil
	})
	if err != nil {
		return err
	}
	ov, _ := json.MarshalIndent(map[string]any{"Replace": overlay}, "", " ")
	if err := os.WriteFile(filepath.Join(out, "overlay.json"), ov, 0o644); err != nil {
		return err
	}
	st, _ := json.Marshal(sites)
	if err := os.WriteFile(filepath.Join(out, "sites.json"), st, 0o644); err != nil {
		return err
	}
	rep, _ := json.MarshalIndent(map[string]any{"counts": counts, "warnings": warnings, "files": len(overlay), "variant": variant}, "", " ")
	if err := os.WriteFile(filepath.Join(out, "instrument_report.json"), rep, 0o644); err != nil {
		return err
	}
	for _, w := range warnings {
		fmt.Fprintln(os.Stderr, "instrument: warning:", w)
	}
	return nil
}

type rewriter struct {
	p       *packages.Package
	fset    *token.FileSet
	info    *types.Info
	repo    string
	changed bool
	useSim  bool
	useOS   bool
	nvar    int
	skip    map[ast.Node]bool       // receive/send nodes that are the comm of a select clause
	pending map[ast.Node][]ast.Stmt // statements to insert before a labeled statement
	pendAft map[ast.Node][]ast.Stmt // statements to insert after a labeled statement
	stmtLvl bool
}

func (r *rewriter) site(pos token.Pos, kind string) *ast.BasicLit {
	r.useSim = true
	r.changed = true
	return newSite(r.fset, pos, kind, r.repo)
}

func (r *rewriter) fresh() string {
	r.nvar++
	return "__vs" + strconv.Itoa(r.nvar)
}

func (r *rewriter) funcFullName(e ast.Expr) string {
	var id *ast.Ident
	switch f := e.(type) {
	case *ast.SelectorExpr:
		id = f.Sel
	case *ast.Ident:
		id = f
	default:
		return ""
	}
	if obj, ok := r.info.Uses[id].(*types.Func); ok {
		return obj.FullName()
	}
	return ""
}

func (r *rewriter) isChan(e ast.Expr) bool {
	t := r.info.TypeOf(e)
	if t == nil {
		return false
	}
	_, ok := t.Underlying().(*types.Chan)
	return ok
}

// variant -> package path -> constant name -> literal (filled in variants.go)
var constVariants = map[string]map[string]map[string]string{}

func rewriteFile(p *packages.Package, file *ast.File, name, repo string, stmtLvl bool, variant string) (bool, error) {
	r := &rewriter{p: p, fset: p.Fset, info: p.TypesInfo, repo: repo, skip: map[ast.Node]bool{},
		pending: map[ast.Node][]ast.Stmt{}, pendAft: map[ast.Node][]ast.Stmt{}, stmtLvl: stmtLvl}

	// import path replacement keeps every use site untouched
	for _, imp := range file.Imports {
		path, _ := strconv.Unquote(imp.Path.Value)
		var repl, defName string
		switch path {
		case "os":
			repl, defName = simosPkg, "os"
		case "math/rand":
			repl, defName = simrandPkg, "rand"
		case "math/rand/v2":
			repl, defName = simrand2, "rand"
		}
		if repl == "" {
			continue
		}
		if imp.Name == nil {
			imp.Name = ast.NewIdent(defName)
		}
		imp.Path.Value = strconv.Quote(repl)
		imp.EndPos = 0
		r.changed = true
		counts["import:"+path]++
	}

	if v := constVariants[variant]; v != nil {
		r.applyConstVariant(file, v)
	}

	pre := func(c *astutil.Cursor) bool {
		switch n := c.Node().(type) {
		case *ast.CommClause:
			if n.Comm != nil {
				r.skip[n.Comm] = true
				switch s := n.Comm.(type) {
				case *ast.ExprStmt:
					r.skip[ast.Unparen(s.X)] = true
				case *ast.AssignStmt:
					if len(s.Rhs) == 1 {
						r.skip[ast.Unparen(s.Rhs[0])] = true
					}
				}
			}
		}
		return true
	}
	post := func(c *astutil.Cursor) bool {
		switch n := c.Node().(type) {
		case *ast.GoStmt:
			c.Replace(r.rewriteGo(n))
		case *ast.CallExpr:
			if repl := r.rewriteCall(n); repl != nil {
				c.Replace(repl)
			}
		case *ast.SelectorExpr:
			if tn, ok := r.info.Uses[n.Sel].(*types.TypeName); ok && tn.Pkg() != nil && tn.Pkg().Path() == "sync" && tn.Name() == "Pool" {
				r.useSim, r.changed = true, true
				counts["pool"]++
				c.Replace(sel("verifsim", "Pool"))
			}
		case *ast.UnaryExpr:
			if n.Op == token.ARROW && !r.skip[n] {
				c.Replace(call(sel("verifsim", "Recv"), r.site(n.Pos(), "recv"), n.X))
			}
		case *ast.AssignStmt:
			// v, ok := <-ch  (the UnaryExpr was already replaced by Recv(...) in post order)
			if len(n.Lhs) == 2 && len(n.Rhs) == 1 && !r.skip[n] {
				if ce, ok := n.Rhs[0].(*ast.CallExpr); ok {
					if se, ok := ce.Fun.(*ast.SelectorExpr); ok {
						if id, ok := se.X.(*ast.Ident); ok && id.Name == "verifsim" && se.Sel.Name == "Recv" {
							se.Sel.Name = "Recv2"
						}
					}
				}
			}
		case *ast.ValueSpec:
			if len(n.Names) == 2 && len(n.Values) == 1 {
				if ce, ok := n.Values[0].(*ast.CallExpr); ok {
					if se, ok := ce.Fun.(*ast.SelectorExpr); ok {
						if id, ok := se.X.(*ast.Ident); ok && id.Name == "verifsim" && se.Sel.Name == "Recv" {
							se.Sel.Name = "Recv2"
						}
					}
				}
			}
		case *ast.SendStmt:
			if !r.skip[n] {
				v := r.fresh()
				blk := &ast.BlockStmt{List: []ast.Stmt{
					&ast.AssignStmt{Lhs: []ast.Expr{ast.NewIdent(v)}, Tok: token.DEFINE, Rhs: []ast.Expr{call(sel("verifsim", "BeforeBlock"), r.site(n.Pos(), "send"))}},
					n,
					&ast.ExprStmt{X: call(sel("verifsim", "AfterBlock"), ast.NewIdent(v))},
				}}
				c.Replace(blk)
			}
		case *ast.SelectStmt:
			v := r.fresh()
			before := &ast.AssignStmt{Lhs: []ast.Expr{ast.NewIdent(v)}, Tok: token.DEFINE, Rhs: []ast.Expr{call(sel("verifsim", "BeforeBlock"), r.site(n.Pos(), "select"))}}
			for _, cl := range n.Body.List {
				cc := cl.(*ast.CommClause)
				cc.Body = append([]ast.Stmt{&ast.ExprStmt{X: call(sel("verifsim", "AfterBlock"), ast.NewIdent(v))}}, cc.Body...)
			}
			if len(n.Body.List) == 0 {
				// select {} blocks forever
				r.insertAround(c, n, []ast.Stmt{before, &ast.AssignStmt{Lhs: []ast.Expr{ast.NewIdent("_")}, Tok: token.ASSIGN, Rhs: []ast.Expr{ast.NewIdent(v)}}}, nil)
			} else {
				r.insertAround(c, n, []ast.Stmt{before}, nil)
			}
		case *ast.RangeStmt:
			if r.isMap(n.X) {
				c.Replace(r.rewriteMapRange(n))
			} else if r.isChan(n.X) {
				v := r.fresh()
				before := &ast.AssignStmt{Lhs: []ast.Expr{ast.NewIdent(v)}, Tok: token.DEFINE, Rhs: []ast.Expr{call(sel("verifsim", "BeforeBlock"), r.site(n.Pos(), "range"))}}
				after := &ast.ExprStmt{X: call(sel("verifsim", "AfterBlock"), ast.NewIdent(v))}
				n.Body.List = append([]ast.Stmt{&ast.ExprStmt{X: call(sel("verifsim", "AfterBlock"), ast.NewIdent(v))}}, n.Body.List...)
				r.insertAround(c, n, []ast.Stmt{before}, []ast.Stmt{after})
			}
		case *ast.LabeledStmt:
			if ins := r.pending[n.Stmt]; len(ins) > 0 {
				r.insertAround(c, n, ins, r.pendAft[n.Stmt])
			}
		case *ast.BlockStmt:
			if r.stmtLvl {
				switch c.Parent().(type) {
				case *ast.SelectStmt, *ast.SwitchStmt, *ast.TypeSwitchStmt:
				default:
					n.List = r.addP(n.List)
				}
			}
		case *ast.CaseClause:
			if r.stmtLvl {
				n.Body = r.addP(n.Body)
			}
		case *ast.CommClause:
			if r.stmtLvl {
				n.Body = r.addP(n.Body)
			}
		}
		return true
	}
	astutil.Apply(file, pre, post)

	if r.useSim {
		astutil.AddNamedImport(r.fset, file, "verifsim", simPkg)
		for _, std := range []string{"sync", "time", "path/filepath"} {
			if !astutil.UsesImport(file, std) {
				astutil.DeleteImport(r.fset, file, std)
			}
		}
	}
	if r.useOS {
		astutil.AddNamedImport(r.fset, file, "verifsimos", simosPkg)
	}
	return r.changed, nil
}

// insertAround inserts statements before/after node n, which sits at cursor c.
func (r *rewriter) insertAround(c *astutil.Cursor, n ast.Node, before, after []ast.Stmt) {
	if c.Index() >= 0 {
		for _, s := range before {
			c.InsertBefore(s)
		}
		for i := len(after) - 1; i >= 0; i-- {
			c.InsertAfter(after[i])
		}
		return
	}
	if _, ok := c.Parent().(*ast.LabeledStmt); ok {
		r.pending[n] = before
		r.pendAft[n] = after
		return
	}
	// not in a statement list (e.g. else-branch): wrap in a block
	stmt, ok := n.(ast.Stmt)
	if !ok {
		warnings = append(warnings, fmt.Sprintf("%s: cannot place scheduling point", r.fset.Position(n.Pos())))
		return
	}
	list := append(append(append([]ast.Stmt{}, before...), stmt), after...)
	c.Replace(&ast.BlockStmt{List: list})
}

func (r *rewriter) addP(list []ast.Stmt) []ast.Stmt {
	if len(list) == 0 {
		return list
	}
	out := make([]ast.Stmt, 0, 2*len(list))
	for _, s := range list {
		switch st := s.(type) {
		case *ast.DeclStmt, *ast.EmptyStmt:
			out = append(out, s)
			continue
		case *ast.ExprStmt:
			// do not separate AfterBlock from the operation it follows
			if ce, ok := st.X.(*ast.CallExpr); ok {
				if se, ok := ce.Fun.(*ast.SelectorExpr); ok {
					if id, ok := se.X.(*ast.Ident); ok && id.Name == "verifsim" && (se.Sel.Name == "AfterBlock" || se.Sel.Name == "P") {
						out = append(out, s)
						continue
					}
				}
			}
		}
		out = append(out, &ast.ExprStmt{X: call(sel("verifsim", "P"), r.site(s.Pos(), "stmt"))}, s)
	}
	return out
}

func (r *rewriter) rewriteGo(n *ast.GoStmt) ast.Stmt {
	pos := n.Pos()
	_ = r.site(pos, "go")
	if fl, ok := n.Call.Fun.(*ast.FuncLit); ok && len(n.Call.Args) == 0 {
		return &ast.ExprStmt{X: call(sel("verifsim", "Go"), fl)}
	}
	var stmts []ast.Stmt
	fun := n.Call.Fun
	isBuiltin := false
	if id, ok := fun.(*ast.Ident); ok {
		if _, ok := r.info.Uses[id].(*types.Builtin); ok {
			isBuiltin = true
		}
	}
	if !isBuiltin {
		fv := r.fresh()
		stmts = append(stmts, &ast.AssignStmt{Lhs: []ast.Expr{ast.NewIdent(fv)}, Tok: token.DEFINE, Rhs: []ast.Expr{fun}})
		fun = ast.NewIdent(fv)
	}
	var args []ast.Expr
	for _, a := range n.Call.Args {
		tv, ok := r.info.Types[a]
		if ok && (tv.Value != nil || tv.IsNil()) {
			args = append(args, a)
			continue
		}
		av := r.fresh()
		stmts = append(stmts, &ast.AssignStmt{Lhs: []ast.Expr{ast.NewIdent(av)}, Tok: token.DEFINE, Rhs: []ast.Expr{a}})
		args = append(args, ast.NewIdent(av))
	}
	inner := &ast.CallExpr{Fun: fun, Args: args, Ellipsis: n.Call.Ellipsis}
	if n.Call.Ellipsis != token.NoPos {
		inner.Ellipsis = 1
	}
	lit := &ast.FuncLit{Type: &ast.FuncType{Params: &ast.FieldList{}}, Body: &ast.BlockStmt{List: []ast.Stmt{&ast.ExprStmt{X: inner}}}}
	stmts = append(stmts, &ast.ExprStmt{X: call(sel("verifsim", "Go"), lit)})
	return &ast.BlockStmt{List: stmts}
}

func (r *rewriter) rewriteCall(n *ast.CallExpr) ast.Expr {
	name := r.funcFullName(n.Fun)
	if name == "" {
		return nil
	}
	se, _ := n.Fun.(*ast.SelectorExpr)
	switch name {
	case "(*sync.Mutex).Lock", "(*sync.RWMutex).Lock":
		return call(sel("verifsim", "Lock"), r.site(n.Pos(), "lock"), &ast.SelectorExpr{X: se.X, Sel: ast.NewIdent("TryLock")})
	case "(*sync.RWMutex).RLock":
		return call(sel("verifsim", "Lock"), r.site(n.Pos(), "rlock"), &ast.SelectorExpr{X: se.X, Sel: ast.NewIdent("TryRLock")})
	case "(*sync.Mutex).Unlock", "(*sync.RWMutex).Unlock", "(*sync.RWMutex).RUnlock":
		r.useSim, r.changed = true, true
		counts["unlock"]++
		return call(sel("verifsim", "Unlock"), n.Fun)
	case "(*sync.WaitGroup).Wait", "(*sync.Cond).Wait":
		return call(sel("verifsim", "Wait"), r.site(n.Pos(), "wait"), n.Fun)
	case "(*sync.Once).Do":
		r.useSim, r.changed = true, true
		counts["once"]++
		return call(sel("verifsim", "OnceDo"), append([]ast.Expr{n.Fun}, n.Args...)...)
	case "time.Sleep":
		return call(sel("verifsim", "Sleep"), append([]ast.Expr{r.site(n.Pos(), "sleep")}, n.Args...)...)
	case "path/filepath.Glob":
		r.useOS, r.changed = true, true
		counts["glob"]++
		return call(sel("verifsimos", "Glob"), n.Args...)
	case "(sync.Locker).Lock", "(sync.Locker).Unlock":
		warnings = append(warnings, fmt.Sprintf("%s: sync.Locker call is not instrumented", r.fset.Position(n.Pos())))
	case "(*golang.org/x/sync/errgroup.Group).Wait":
		return call(sel("verifsim", "WaitErr"), r.site(n.Pos(), "wait"), n.Fun)
	}
	return nil
}

func (r *rewriter) isMap(e ast.Expr) bool {
	t := r.info.TypeOf(e)
	if t == nil {
		return false
	}
	_, ok := t.Underlying().(*types.Map)
	return ok
}

// rewriteMapRange turns `for k, v := range m { body }` into
//
//	for it := verifsim.MapIter(site, m); it.Next(); { k, v := it.Key(), it.Val(); body }
//
// (one statement, so labels, break and continue keep their meaning).
func (r *rewriter) rewriteMapRange(n *ast.RangeStmt) ast.Stmt {
	r.useSim, r.changed = true, true
	counts["maprange"]++
	it := r.fresh()
	init := &ast.AssignStmt{Lhs: []ast.Expr{ast.NewIdent(it)}, Tok: token.DEFINE,
		Rhs: []ast.Expr{call(sel("verifsim", "MapIter"), r.site(n.Pos(), "maprange"), n.X)}}
	cond := call(&ast.SelectorExpr{X: ast.NewIdent(it), Sel: ast.NewIdent("Next")})
	var pre []ast.Stmt
	bind := func(lhs ast.Expr, method string) {
		if lhs == nil {
			return
		}
		if id, ok := lhs.(*ast.Ident); ok && id.Name == "_" {
			return
		}
		tok := n.Tok
		if tok != token.DEFINE {
			tok = token.ASSIGN
		}
		pre = append(pre, &ast.AssignStmt{Lhs: []ast.Expr{lhs}, Tok: tok,
			Rhs: []ast.Expr{call(&ast.SelectorExpr{X: ast.NewIdent(it), Sel: ast.NewIdent(method)})}})
		if tok == token.DEFINE {
			// a variable the body never reads must not become "declared and not used"
			pre = append(pre, &ast.AssignStmt{Lhs: []ast.Expr{ast.NewIdent("_")}, Tok: token.ASSIGN, Rhs: []ast.Expr{ast.NewIdent(lhs.(*ast.Ident).Name)}})
		}
	}
	bind(n.Key, "Key")
	bind(n.Value, "Val")
	n.Body.List = append(pre, n.Body.List...)
	return &ast.ForStmt{For: n.For, Init: init, Cond: cond, Body: n.Body}
}

func (r *rewriter) applyConstVariant(file *ast.File, v map[string]map[string]string) {
	vals := v[r.p.PkgPath]
	if vals == nil {
		return
	}
	// package-level and function-local constant declarations
	ast.Inspect(file, func(n ast.Node) bool {
		// a tuning value that is written as a local variable: `name := <constant expression>` (key ":=name@file.go")
		if as, ok := n.(*ast.AssignStmt); ok && as.Tok == token.DEFINE && len(as.Lhs) == 1 && len(as.Rhs) == 1 {
			if id, ok := as.Lhs[0].(*ast.Ident); ok {
				if lit, ok := vals[":="+id.Name+"@"+filepath.Base(r.fset.Position(as.Pos()).Filename)]; ok {
					as.Rhs[0] = &ast.BasicLit{Kind: token.INT, Value: lit}
					r.changed = true
					counts["const:"+id.Name]++
				}
			}
			return true
		}
		gd, ok := n.(*ast.GenDecl)
		if !ok || gd.Tok != token.CONST {
			return true
		}
		for _, sp := range gd.Specs {
			vs := sp.(*ast.ValueSpec)
			for i, nm := range vs.Names {
				if lit, ok := vals[nm.Name]; ok && i < len(vs.Values) {
					vs.Values[i] = &ast.BasicLit{Kind: token.INT, Value: lit}
					r.changed = true
					counts["const:"+nm.Name]++
				}
			}
		}
		return true
	})
}

package storeapi

// Observation-only accessor for the simulation harness (added to the package by the build
// overlay; not part of /repo).

// VerifBusySearchWorkers is the number of search worker slots that are taken right now.
func (g *GrpcV1) VerifBusySearchWorkers() int {
	return g.searchData.searcher.VerifBusyWorkers()
}

// VerifInflight returns the counters of search and bulk requests in flight.
func (g *GrpcV1) VerifInflight() (searches, bulks int64) {
	return g.searchData.inflight.Load(), g.inflightBulks.Load()
}

package bulk

// Observation-only accessor for the simulation harness (added to the package by the build
// overlay; not part of /repo).

// VerifIdle reports what the ingestor holds for requests: rate-limit tickets in the channel, their number
// when none is out, and the counter of requests in flight.
func (i *Ingestor) VerifIdle() (tickets, total int, inflight int64) {
	return len(i.rateLimit), cap(i.rateLimit), i.inflight.Load()
}

package proxyapi

// Construction of the gRPC layer for the simulation harness (added to the package by the build
// overlay; not part of /repo).

import (
	"github.com/ozontech/seq-db/pkg/seqproxyapi/v1"
)

type verifNoLimit struct{}

func (verifNoLimit) Account(string) bool { return true }

// VerifNewGrpcV1 builds the proxy's gRPC API over a search ingestor, without rate limit and mirror.
func VerifNewGrpcV1(cfg APIConfig, si SearchIngestor, mp MappingProvider) seqproxyapi.SeqProxyApiServer {
	return newGrpcV1(cfg, si, mp, verifNoLimit{}, nil)
}

// VerifIngestorDefaults passes a configuration through the defaulting NewIngestor applies first thing,
// so that the harness builds the bulk ingestor from what a proxy would really run with.
func VerifIngestorDefaults(c IngestorConfig) IngestorConfig {
	c.setDefaults()
	return c
}

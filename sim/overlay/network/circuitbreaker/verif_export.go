package circuitbreaker

import "github.com/cep21/circuit/v3"

// VerifReset forgets all circuits: the manager is a package-level registry keyed by name, and the
// proxy uses fixed names, so without a reset the breaker state of one simulated run would leak into
// the next run of the same process.
func VerifReset() {
	manager = circuit.Manager{}
}

package cache

// Observation-only accessors for the simulation harness (added by the build overlay).

import "github.com/ozontech/seq-db/verifsim"

// VerifSize is the size the cleaner accounts (sum over its generations).
func (c *Cleaner) VerifSize() uint64 { return c.getSize() }

// VerifBucketCount returns the number of buckets under the cleaner's management.
func (c *Cleaner) VerifBucketCount() int {
	verifsim.Lock(0, c.mu.TryLock)
	defer verifsim.Unlock(c.mu.Unlock)
	return len(c.buckets)
}

// VerifManages reports whether b is in the cleaner's bucket list.
func (c *Cleaner) VerifManages(b any) bool {
	verifsim.Lock(0, c.mu.TryLock)
	defer verifsim.Unlock(c.mu.Unlock)
	for _, x := range c.buckets {
		if any(x) == b {
			return true
		}
	}
	return false
}

// VerifLive returns the sum of entry sizes and the number of entries of the cache.
func (c *Cache[V]) VerifLive() (size uint64, entries int, released bool) {
	verifsim.Lock(0, c.mu.TryLock)
	defer verifsim.Unlock(c.mu.Unlock)
	for _, e := range c.payload {
		size += e.size
		entries++
	}
	return size, entries, c.released
}

// VerifGens returns, per generation the cleaner still lists, its accounted size.
func (c *Cleaner) VerifGens() map[*Generation]uint64 {
	out := map[*Generation]uint64{}
	for _, g := range c.generations {
		out[g] = g.size.Load()
	}
	return out
}

// VerifEntries returns key -> (size, generation, stale) of the live entries.
func (c *Cache[V]) VerifEntries() (keys []uint32, sizes []uint64, gens []*Generation, stale []bool) {
	verifsim.Lock(0, c.mu.TryLock)
	defer verifsim.Unlock(c.mu.Unlock)
	for k, e := range c.payload {
		keys = append(keys, k)
		sizes = append(sizes, e.size)
		gens = append(gens, e.gen)
		stale = append(stale, e.gen != nil && e.gen.stale)
	}
	return
}

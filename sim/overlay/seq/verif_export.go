package seq

// Observation-only accessor for the simulation harness (added to the package by the build overlay;
// not part of /repo).

// VerifMaxHistogramSamples is the number of samples a bin keeps exactly (shipped: 8096; build variant
// tiny lowers it so that the reservoir path is reachable with tens of documents).
func VerifMaxHistogramSamples() int { return maxHistogramSamples }

package fracmanager

// Observation-only accessors for the simulation harness (added to the package by the build
// overlay; not part of /repo). Written against the simulator API by hand because overlay files
// are not passed through the instrumenter.

import (
	"github.com/ozontech/seq-db/cache"
	"github.com/ozontech/seq-db/verifsim"
)

// VerifWaitAllIndexed waits until every fraction that is (or was) active has indexed everything
// appended to it. FracManager.WaitIdle only looks at the current writer, but a bulk that was
// appended while the fraction was being rotated out is still indexed into the previous one.
func (fm *FracManager) VerifWaitAllIndexed() {
	verifsim.Lock(0, fm.fracMu.TryRLock)
	refs := append([]*fracRef(nil), fm.fracs...)
	verifsim.Unlock(fm.fracMu.RUnlock)
	for _, r := range refs {
		if p, ok := r.instance.(*proxyFrac); ok {
			verifsim.Wait(0, p.indexWg.Wait)
		}
	}
}

// VerifStates returns the hand-over state of every fraction (active|sealing|sealed|suicided|file).
func (fm *FracManager) VerifStates() []string {
	verifsim.Lock(0, fm.fracMu.TryRLock)
	refs := append([]*fracRef(nil), fm.fracs...)
	verifsim.Unlock(fm.fracMu.RUnlock)
	out := make([]string, 0, len(refs))
	for _, r := range refs {
		p, ok := r.instance.(*proxyFrac)
		if !ok {
			out = append(out, "file")
			continue
		}
		verifsim.Lock(0, p.useMu.TryRLock)
		switch {
		case p.isActiveState():
			out = append(out, "active")
		case p.isSealingState():
			out = append(out, "sealing")
		case p.isSuicidedState():
			out = append(out, "suicided")
		default:
			out = append(out, "sealed")
		}
		verifsim.Unlock(p.useMu.RUnlock)
	}
	return out
}

// VerifCleaners returns the cleaners a maintainer built from the configured sizes, with their labels.
func (cm *CacheMaintainer) VerifCleaners() ([]*cache.Cleaner, []string) {
	return cm.cleaners, cm.cleanerLabels
}

// VerifBusyWorkers is the number of search worker slots that are taken right now.
func (s *Searcher) VerifBusyWorkers() int { return len(s.sem) }

// Simulation replacement of seq-db's logger package (mapped over /repo/logger/logger.go by the
// build overlay). Same API. Messages go to an in-memory sink that doubles as a probe counter;
// Fatal ends the simulated process instead of calling os.Exit.
package logger

import (
	"net/http"
	"os"
	"strings"
	"sync"

	"go.uber.org/zap"
	"go.uber.org/zap/zapcore"

	"github.com/ozontech/seq-db/verifsim"
)

type Logger struct {
	*zap.Logger
	zap.AtomicLevel
}

var logger Logger

var (
	sinkMu sync.Mutex
	// Counts of messages by "level:message" since the last ResetSink.
	sink = map[string]int{}
	// Verbose makes the sink also print to stderr (debugging).
	Verbose = os.Getenv("VERIF_LOG") != ""
	// Tail keeps the last messages for diagnostics.
	tail []string
)

func init() {
	level := zap.InfoLevel
	if !Verbose {
		level = zap.FatalLevel + 1
	}
	atomicLevel := zap.NewAtomicLevelAt(level)
	zapLogger := zap.New(
		zapcore.NewCore(
			zapcore.NewJSONEncoder(zapcore.EncoderConfig{
				LevelKey:       "level",
				MessageKey:     "message",
				LineEnding:     zapcore.DefaultLineEnding,
				EncodeLevel:    zapcore.LowercaseLevelEncoder,
				EncodeDuration: zapcore.SecondsDurationEncoder,
			}),
			zapcore.AddSync(os.Stderr),
			atomicLevel,
		),
	)
	logger = Logger{zapLogger, atomicLevel}
}

func record(level, msg string, args []zap.Field) {
	// (counters are keyed by the constant part of a message: some messages carry file names or error texts)
	key := msg
	for _, cut := range []string{" error=", " err=", ": ", " frac="} {
		if i := strings.Index(key, cut); i > 0 {
			key = key[:i]
		}
	}
	if len(key) > 80 {
		key = key[:80]
	}
	sinkMu.Lock()
	sink[level+":"+key]++
	if level != "debug" && level != "info" {
		s := level + ": " + msg
		for _, a := range args {
			if a.Type == zapcore.ErrorType && a.Interface != nil {
				if e, ok := a.Interface.(error); ok {
					s += " err=" + e.Error()
				}
			} else if a.Type == zapcore.StringType {
				s += " " + a.Key + "=" + a.String
			}
		}
		if len(tail) >= 200 {
			tail = tail[1:]
		}
		tail = append(tail, s)
	}
	sinkMu.Unlock()
}

// SinkSnapshot returns a copy of the message counters.
func SinkSnapshot() map[string]int {
	sinkMu.Lock()
	defer sinkMu.Unlock()
	out := make(map[string]int, len(sink))
	for k, v := range sink {
		out[k] = v
	}
	return out
}

// SinkTail returns the last warn/error/fatal messages.
func SinkTail() []string {
	sinkMu.Lock()
	defer sinkMu.Unlock()
	return append([]string(nil), tail...)
}

func ResetSink() {
	sinkMu.Lock()
	sink = map[string]int{}
	tail = nil
	sinkMu.Unlock()
}

func Debug(msg string, args ...zap.Field) {
	if Verbose {
		logger.Debug(msg, args...)
	}
}

func Info(msg string, args ...zap.Field) {
	record("info", msg, nil)
	if Verbose {
		logger.Info(msg, args...)
	}
}

func Warn(msg string, args ...zap.Field) {
	record("warn", msg, args)
	if Verbose {
		logger.Warn(msg, args...)
	}
}

func Error(msg string, args ...zap.Field) {
	record("error", msg, args)
	if Verbose {
		logger.Error(msg, args...)
	}
}

func fieldsString(args []zap.Field) string {
	var sb strings.Builder
	for _, a := range args {
		switch a.Type {
		case zapcore.ErrorType:
			if e, ok := a.Interface.(error); ok && e != nil {
				sb.WriteString(" " + a.Key + "=" + e.Error())
			}
		case zapcore.StringType:
			sb.WriteString(" " + a.Key + "=" + a.String)
		}
	}
	return sb.String()
}

func Panic(msg string, args ...zap.Field) {
	record("panic", msg, args)
	panic(msg + fieldsString(args))
}

func Fatal(msg string, args ...zap.Field) {
	record("fatal", msg, args)
	if verifsim.Active() {
		verifsim.ProcessExit(msg + fieldsString(args))
		return
	}
	logger.Fatal(msg, args...)
}

// Handler returns http handler to view/change log level in runtime
func Handler() http.Handler {
	return logger.AtomicLevel
}

func SetLevel(level zapcore.Level) {
	logger.SetLevel(level)
}

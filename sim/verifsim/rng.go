package verifsim

import "math"

// SplitMix is the only PRNG of the simulator: small, seedable, splittable by name.
type SplitMix struct{ x uint64 }

func NewSplitMix(seed uint64) *SplitMix { return &SplitMix{x: seed} }

func (r *SplitMix) Uint64() uint64 {
	r.x += 0x9E3779B97F4A7C15
	z := r.x
	z = (z ^ (z >> 30)) * 0xBF58476D1CE4E5B9
	z = (z ^ (z >> 27)) * 0x94D049BB133111EB
	return z ^ (z >> 31)
}

func (r *SplitMix) Float64() float64 { return float64(r.Uint64()>>11) / float64(1<<53) }

// Intn returns a value in [0,n).
func (r *SplitMix) Intn(n int) int {
	if n <= 0 {
		return 0
	}
	return int(r.Uint64() % uint64(n))
}

// Range returns a value in [lo,hi].
func (r *SplitMix) Range(lo, hi int) int {
	if hi <= lo {
		return lo
	}
	return lo + r.Intn(hi-lo+1)
}

func (r *SplitMix) Bool(p float64) bool { return r.Float64() < p }

// Split derives an independent stream from a name.
func (r *SplitMix) Split(name string) *SplitMix {
	h := uint64(14695981039346656037)
	for i := 0; i < len(name); i++ {
		h = (h ^ uint64(name[i])) * 1099511628211
	}
	return &SplitMix{x: r.x ^ h ^ 0xD1B54A32D192ED03}
}

// Hash64 mixes values into a decision that does not depend on draw order.
func Hash64(vals ...uint64) uint64 {
	h := uint64(0x9E3779B97F4A7C15)
	for _, v := range vals {
		h ^= v + 0x9E3779B97F4A7C15 + (h << 6) + (h >> 2)
		h = (h ^ (h >> 30)) * 0xBF58476D1CE4E5B9
		h = (h ^ (h >> 27)) * 0x94D049BB133111EB
		h ^= h >> 31
	}
	return h
}

func HashStr(s string) uint64 {
	h := uint64(14695981039346656037)
	for i := 0; i < len(s); i++ {
		h = (h ^ uint64(s[i])) * 1099511628211
	}
	return h
}

var _ = math.Pi

// Package verifsim is the deterministic simulator runtime that instrumented seq-db code calls into.
//
// It is mounted into the seq-db module by a `go build -overlay` file as
// github.com/ozontech/seq-db/verifsim; nothing of it lives in /repo.
//
// Model: every goroutine of the system under test is a *task*. Exactly one task holds the baton
// and executes; all others are parked on their private resume channel (a durable block for
// testing/synctest) or blocked in a real channel/WaitGroup/timer operation (also durable).
// The scheduler goroutine loops: synctest.Wait() -> collect runnable tasks -> pick one from the
// schedule source -> hand over the baton. The fake clock of the bubble advances only when
// nothing is runnable (the scheduler blocks on its poke channel) or when the configured
// per-step cost of computation is charged.
package verifsim

import (
	"fmt"
	"runtime"
	"runtime/debug"
	"sort"
	"strings"
	"sync"
	"testing"
	"testing/synctest"
	"time"
)

type taskState int32

const (
	stRunning  taskState = iota // holds the baton
	stRunnable                  // parked on resume, wants to run
	stLockWait                  // parked on resume, waiting for an unlock event
	stExternal                  // blocked in a channel/WaitGroup/timer operation
	stDone                      // function returned (or abandoned while unwinding a dead incarnation)
)

// Task is one simulated goroutine.
type Task struct {
	ID   string // hierarchical, assigned by the (single) running parent: deterministic
	Seq  int    // creation order
	Node *Node  // nil for harness tasks
	Inc  int    // node incarnation the task belongs to

	state     taskState
	resume    chan struct{}
	lockEpoch uint64
	children  int
	noYield   int
	exiting   bool // unwinding after the incarnation died
	site      uint32
	choice    int // choice drawn by the task itself in Yield (-1: scheduler draws)
	waitSite  uint32

	DoneCh chan struct{} // closed when the task function has returned
	spin      int           // scheduling points passed in a row without giving up the baton
	spinSleep time.Duration // last forced sleep of a spinning task
}

// Node is a simulated process: a name, an incarnation counter and a liveness flag.
type Node struct {
	Name string
	Dir  string // data directory prefix on the simulated disk ("" = none)

	mu        sync.Mutex
	inc       int
	alive     bool
	deadCh    chan struct{}
	DeathNote string // why the current/last incarnation died ("" = still alive or stopped by harness)
	Skew      time.Duration
}

// Config of one simulated run.
type Config struct {
	Seed       uint64
	PSync      float64       // probability that a synchronisation point pre-empts
	PStmt      float64       // probability that a statement-level point pre-empts
	StepCost   time.Duration // simulated time charged per scheduling step (0 = computation is free)
	MaxSteps   int           // hard cap on scheduling steps
	Schedule   []int         // replay: explicit choices (negative n = run of n zeros); nil = generate
	IdleLimit  time.Duration // simulated time without any runnable task after which the run is declared stalled
	// OnEnd, if set, runs on the bubble's main goroutine right after the scheduler loop ended and
	// before remaining tasks are torn down. Engines whose system under test keeps tickers running
	// (a store) report their result and exit the process from here: such a bubble cannot end.
	OnEnd func(s *Sim)
	TraceSched bool          // keep a textual trace of scheduling decisions (debugging)
}

// Sim is the state of one run.
type Sim struct {
	cfg Config

	mu          sync.Mutex
	tasks       []*Task
	current     *Task
	unlockEpoch uint64
	steps       int
	poke        chan struct{}
	root        *Task
	stopping    bool
	killAll     bool

	rng       *SplitMix
	schedIn   []int // expanded replay schedule
	schedPos  int
	schedOut  []int // recorded choices (RLE for zeros)
	zeroRun   int
	hash      uint64 // interleaving hash: fold of (task seq, site) per decision
	switches  int    // decisions that changed the running task although the previous one was runnable
	Outcome   string // "", "steps", "stalled"
	Failures  []string
	trace     []string
	startTime time.Time
	simElapsed time.Duration
	ended      bool

	nodes []*Node

	Probes    map[string]int
	mapVisits map[uint32]uint64 // per site: how often a map iteration started there (MapIter)
}

var cur *Sim

// Current returns the running simulation or nil.
func Current() *Sim { return cur }

// Active reports whether code runs under the simulator.
func Active() bool { return cur != nil }

func expandSchedule(in []int) []int {
	var out []int
	for _, v := range in {
		if v < 0 {
			for i := 0; i < -v; i++ {
				out = append(out, 0)
			}
		} else {
			out = append(out, v)
		}
	}
	return out
}

// RunBubble executes root as task "0" inside a synctest bubble and returns when root has
// returned, the step budget is exhausted or the run stalled. If exitAfter is false, all remaining
// tasks are killed so that the bubble can end and another run can follow in the same process.
func RunBubble(t *testing.T, cfg Config, root func(s *Sim)) (s *Sim) {
	if cfg.MaxSteps == 0 {
		cfg.MaxSteps = 400000
	}
	if cfg.IdleLimit == 0 {
		cfg.IdleLimit = 6 * time.Hour
	}
	// sync.Pool contents (and with them buffer capacities and code paths) must not depend on when
	// the garbage collector happens to run: no GC during a run.
	oldGC := debug.SetGCPercent(-1)
	defer debug.SetGCPercent(oldGC)
	ResetPools() // a run does not inherit pooled objects from the run before it in the same process
	defer func() {
		cur = nil
		if r := recover(); r != nil {
			msg := fmt.Sprint(r)
			if strings.Contains(msg, "deadlock:") {
				// blocked goroutines remained at the end of the bubble: expected (channels nobody
				// will ever close after a simulated crash); not a finding by itself.
				return
			}
			panic(r)
		}
	}()
	synctest.Test(t, func(t *testing.T) {
		// everything the scheduler blocks on must be created inside the bubble
		s = &Sim{cfg: cfg, poke: make(chan struct{}, 1), Probes: map[string]int{}}
		s.rng = NewSplitMix(cfg.Seed ^ 0x5ced5ced5ced5ced)
		if cfg.Schedule != nil {
			s.schedIn = expandSchedule(cfg.Schedule)
			if s.schedIn == nil {
				s.schedIn = []int{}
			}
		}
		cur = s
		s.startTime = time.Now()
		s.root = s.newTask(nil, nil, 0)
		s.root.ID = "0"
		go s.taskMain(s.root, func() { root(s) })
		s.loop()
		s.simElapsed = time.Since(s.startTime)
		s.ended = true
		if cfg.OnEnd != nil {
			cfg.OnEnd(s)
		}
		s.shutdown()
	})
	return s
}

func (s *Sim) newTask(parent *Task, node *Node, inc int) *Task {
	t := &Task{Seq: len(s.tasks), resume: make(chan struct{}), state: stRunnable, choice: -1, Node: node, Inc: inc, DoneCh: make(chan struct{})}
	if parent != nil {
		parent.children++
		t.ID = fmt.Sprintf("%s.%d", parent.ID, parent.children)
	}
	s.tasks = append(s.tasks, t)
	return t
}

func (s *Sim) taskMain(t *Task, f func()) {
	<-t.resume
	defer func() {
		if r := recover(); r != nil {
			stack := string(debug.Stack())
			s.onPanic(t, r, stack)
		}
		s.mu.Lock()
		t.state = stDone
		s.mu.Unlock()
		close(t.DoneCh)
	}()
	s.checkDead(t)
	f()
}

func (s *Sim) onPanic(t *Task, r any, stack string) {
	msg := fmt.Sprintf("panic in task %s: %v", t.ID, r)
	if t.Node != nil {
		// an unrecovered panic in any goroutine kills the process
		s.Probe("process_panic")
		t.Node.die(t.Inc, msg+"\n"+trimStack(stack), false)
		return
	}
	s.mu.Lock()
	s.Failures = append(s.Failures, "harness "+msg+"\n"+stack)
	s.mu.Unlock()
}

func trimStack(st string) string {
	lines := strings.Split(st, "\n")
	var keep []string
	for _, l := range lines {
		if strings.Contains(l, "seq-db") && !strings.Contains(l, "verifsim") {
			keep = append(keep, strings.TrimSpace(l))
		}
		if len(keep) >= 12 {
			break
		}
	}
	return strings.Join(keep, "\n")
}

// loop is the scheduler; it runs on the bubble's main goroutine.
func (s *Sim) loop() {
	var prev *Task
	idleSince := time.Time{}
	for {
		synctest.Wait()
		s.mu.Lock()
		if c := s.current; c != nil && c.state == stRunning {
			c.state = stExternal
		}
		s.current = nil
		if s.root.state == stDone || len(s.Failures) > 0 {
			s.mu.Unlock()
			return
		}
		if s.steps >= s.cfg.MaxSteps {
			s.Outcome = "steps"
			s.mu.Unlock()
			return
		}
		cands := s.runnableLocked(prev)
		if len(cands) == 0 {
			s.mu.Unlock()
			if idleSince.IsZero() {
				idleSince = time.Now()
			} else if time.Since(idleSince) > s.cfg.IdleLimit {
				s.Outcome = "stalled"
				return
			}
			select {
			case <-s.poke:
			case <-time.After(time.Hour):
			}
			prev = nil
			continue
		}
		idleSince = time.Time{}
		var pick *Task
		prevRunnable := prev != nil && cands[0] == prev
		if prevRunnable && prev.choice >= 0 {
			pick = cands[prev.choice%len(cands)]
		} else {
			v := s.drawLocked(1.0)
			pick = cands[v%len(cands)]
		}
		if prevRunnable && pick != prev {
			s.switches++
		}
		if prev != nil {
			prev.choice = -1
		}
		pick.choice = -1
		pick.state = stRunning
		s.current = pick
		s.steps++
		s.hash = (s.hash ^ uint64(pick.Seq)<<32 ^ uint64(pick.waitSite)) * 0x9E3779B97F4A7C15
		if s.cfg.TraceSched {
			s.trace = append(s.trace, fmt.Sprintf("%d %s site=%d n=%d t=%s", s.steps, pick.ID, pick.waitSite, len(cands), time.Since(s.startTime)))
		}
		charge := s.cfg.StepCost > 0 && s.steps%32 == 0
		s.mu.Unlock()
		if charge {
			time.Sleep(32 * s.cfg.StepCost)
			synctest.Wait()
		}
		prev = pick
		pick.resume <- struct{}{}
	}
}

// runnableLocked returns the candidates, the previously running task first if it is runnable.
func (s *Sim) runnableLocked(prev *Task) []*Task {
	var cands []*Task
	for _, t := range s.tasks {
		switch t.state {
		case stRunnable:
			cands = append(cands, t)
		case stLockWait:
			if s.unlockEpoch > t.lockEpoch {
				cands = append(cands, t)
			}
		}
	}
	if prev != nil {
		for i, t := range cands {
			if t == prev {
				copy(cands[1:i+1], cands[:i])
				cands[0] = prev
				break
			}
		}
	}
	return cands
}

// drawLocked returns the next schedule choice. p is the probability of a non-zero draw when generating.
func (s *Sim) drawLocked(p float64) int {
	var v int
	if s.schedIn != nil {
		if s.schedPos < len(s.schedIn) {
			v = s.schedIn[s.schedPos]
			s.schedPos++
		}
	} else if p >= 1 || (p > 0 && s.rng.Float64() < p) {
		v = 1 + int(s.rng.Uint64()%63)
	}
	if v == 0 {
		s.zeroRun++
	} else {
		if s.zeroRun > 0 {
			s.schedOut = append(s.schedOut, -s.zeroRun)
			s.zeroRun = 0
		}
		s.schedOut = append(s.schedOut, v)
	}
	return v
}

// RecordedSchedule returns the choices consumed so far in replayable form.
func (s *Sim) RecordedSchedule() []int {
	s.mu.Lock()
	defer s.mu.Unlock()
	out := append([]int(nil), s.schedOut...)
	if s.zeroRun > 0 {
		out = append(out, -s.zeroRun)
	}
	return out
}

func (s *Sim) Steps() int             { return s.steps }

// SchedTrace returns the textual trace of scheduling decisions (Config.TraceSched).
func (s *Sim) SchedTrace() []string { return s.trace }

func (s *Sim) Switches() int          { return s.switches }
func (s *Sim) InterleavingHash() uint64 { return s.hash }
func (s *Sim) Trace() []string        { return s.trace }
func (s *Sim) SimElapsed() time.Duration {
	if s.ended { // (a run may end at the very instant it started: zero is a value, not "unset")
		return s.simElapsed
	}
	return time.Since(s.startTime)
}

// Probe counts a "this rare condition was hit" event.
func (s *Sim) Probe(name string) {
	s.mu.Lock()
	s.Probes[name]++
	s.mu.Unlock()
}

// Probe on the current simulation, no-op outside.
func Probe(name string) {
	if s := cur; s != nil {
		s.Probe(name)
	}
}

// shutdown kills every remaining task so the bubble can end.
func (s *Sim) shutdown() {
	s.mu.Lock()
	s.killAll = true
	s.mu.Unlock()
	for round := 0; round < 1000; round++ {
		synctest.Wait()
		s.mu.Lock()
		if c := s.current; c != nil && c.state == stRunning {
			c.state = stExternal
		}
		s.current = nil
		var pick *Task
		for _, t := range s.tasks {
			if t.state == stRunnable || t.state == stLockWait {
				pick = t
				break
			}
		}
		if pick == nil {
			s.mu.Unlock()
			return
		}
		pick.state = stRunning
		s.current = pick
		s.mu.Unlock()
		pick.resume <- struct{}{}
	}
}

// me returns the task holding the baton; instrumented code only runs while holding it.
func (s *Sim) me() *Task {
	s.mu.Lock()
	t := s.current
	s.mu.Unlock()
	return t
}

// checkDead ends the calling task if its incarnation died or the run is being torn down.
func (s *Sim) checkDead(t *Task) {
	if t.exiting {
		return
	}
	if s.killAll || (t.Node != nil && !t.Node.aliveInc(t.Inc)) {
		t.exiting = true
		runtime.Goexit()
	}
}

// abandon parks a task forever (used when an unwinding dead task would have to wait).
func (s *Sim) abandon(t *Task) {
	s.mu.Lock()
	t.state = stDone
	s.mu.Unlock()
	select {}
}

// parkLocked must be called with s.mu held and t.state already set; it releases the baton.
func (s *Sim) park(t *Task) {
	<-t.resume
	s.checkDead(t)
}

// ---- API used by instrumented code -------------------------------------------------------------

// Go starts f as a new task of the caller's node.
func Go(f func()) {
	s := cur
	if s == nil {
		go f()
		return
	}
	s.mu.Lock()
	parent := s.current
	var node *Node
	inc := 0
	if parent != nil {
		node, inc = parent.Node, parent.Inc
	}
	t := s.newTask(parent, node, inc)
	s.mu.Unlock()
	go s.taskMain(t, f)
}

// GoOn starts f as a task of the given node's current incarnation (harness use).
func (s *Sim) GoOn(node *Node, f func()) *Task {
	s.mu.Lock()
	parent := s.current
	inc := 0
	if node != nil {
		inc = node.Incarnation()
	}
	t := s.newTask(parent, node, inc)
	s.mu.Unlock()
	go s.taskMain(t, f)
	return t
}

// Done reports whether the task has finished.
func (s *Sim) Done(t *Task) bool {
	s.mu.Lock()
	defer s.mu.Unlock()
	return t.state == stDone
}

const (
	KindSync = 0
	KindStmt = 1
)

func (s *Sim) yield(site uint32, p float64) {
	t := s.me()
	if t == nil {
		return
	}
	if t.exiting {
		return
	}
	s.checkDead(t)
	if t.noYield > 0 {
		return
	}
	s.mu.Lock()
	v := s.drawLocked(p)
	if s.cfg.TraceSched {
		s.trace = append(s.trace, fmt.Sprintf("  draw %s site=%d v=%d", t.ID, site, v))
	}
	if v == 0 {
		// A task that passes thousands of scheduling points without ever parking is spinning (a busy retry
		// loop in the code under test). On a machine its peers run in parallel and the clock moves; here it
		// would keep the baton for ever at the same simulated instant. It is made to sleep, a little longer
		// each time: the others get to run and deadlines come closer. A function of counts only - replays.
		t.spin++
		if t.spin >= spinLimit {
			t.spin = 0
			if t.spinSleep == 0 {
				t.spinSleep = time.Millisecond
			} else if t.spinSleep < time.Second {
				t.spinSleep *= 2
			}
			d := t.spinSleep
			s.Probes["spinning_task_preempted"]++
			s.mu.Unlock()
			t.waitSite = site
			time.Sleep(d)
			AfterBlock(t)
			return
		}
		s.mu.Unlock()
		return
	}
	t.spin = 0
	t.choice = v
	t.state = stRunnable
	t.waitSite = site
	s.mu.Unlock()
	s.park(t)
}

const spinLimit = 20000

// Yield is a scheduling point in front of a synchronisation operation.
func Yield(site uint32) {
	if s := cur; s != nil {
		s.yield(site, s.cfg.PSync)
	}
}

// P is a statement-level probabilistic pre-emption point.
func P(site uint32) {
	if s := cur; s != nil && s.cfg.PStmt > 0 {
		s.yield(site, s.cfg.PStmt)
	}
}

// BeforeBlock is called before an operation that may block outside the simulator's control
// (channel operation, select, WaitGroup.Wait, Sleep). It is a scheduling point and returns the
// caller's task, to be passed to AfterBlock right after the operation.
func BeforeBlock(site uint32) *Task {
	s := cur
	if s == nil {
		return nil
	}
	t := s.me()
	if t == nil {
		return nil
	}
	if !t.exiting {
		s.yield(site, s.cfg.PSync)
	}
	t.waitSite = site
	return t
}

// AfterBlock must be the first thing executed after a potentially blocking operation returned.
// If the task lost the baton while blocked it parks until it is scheduled again.
func AfterBlock(t *Task) {
	s := cur
	if s == nil || t == nil {
		return
	}
	s.mu.Lock()
	if s.current == t && t.state == stRunning {
		s.mu.Unlock()
		s.checkDead(t)
		return
	}
	if t.exiting {
		// a dead task woke up while unwinding: it must not run concurrently with the baton holder
		t.state = stRunnable
		s.mu.Unlock()
		s.pokeSched()
		<-t.resume
		return
	}
	t.state = stRunnable
	t.spin = 0 // it did block: not spinning
	s.mu.Unlock()
	s.pokeSched()
	s.park(t)
}

func (s *Sim) pokeSched() {
	select {
	case s.poke <- struct{}{}:
	default:
	}
}

// Lock acquires a sync.Mutex/RWMutex through its Try method: scheduling point, then a try-lock
// loop that parks until some lock has been released.
func Lock(site uint32, try func() bool) {
	s := cur
	if s == nil {
		for !try() {
			runtime.Gosched()
		}
		return
	}
	t := s.me()
	if t == nil {
		// not a task (should not happen): spin
		for !try() {
			runtime.Gosched()
		}
		return
	}
	if !t.exiting {
		s.yield(site, s.cfg.PSync)
	}
	for !try() {
		if t.exiting {
			s.abandon(t)
		}
		if t.noYield > 0 {
			panic("verifsim: lock contention inside a no-yield region (sync.Once body)")
		}
		s.mu.Lock()
		t.state = stLockWait
		t.lockEpoch = s.unlockEpoch
		t.waitSite = site
		s.Probes["lock_waiter_parked"]++
		s.mu.Unlock()
		s.park(t)
	}
}

// Unlock releases through the given method value and wakes lock waiters.
func Unlock(unlock func()) {
	unlock()
	if s := cur; s != nil {
		s.mu.Lock()
		s.unlockEpoch++
		s.mu.Unlock()
	}
}

// Wait wraps WaitGroup.Wait / Cond.Wait style calls.
func Wait(site uint32, wait func()) {
	t := BeforeBlock(site)
	wait()
	AfterBlock(t)
}

// Sleep wraps time.Sleep.
func Sleep(site uint32, d time.Duration) {
	t := BeforeBlock(site)
	time.Sleep(d)
	AfterBlock(t)
}

// Recv wraps `<-ch` in expression position.
func Recv[T any](site uint32, ch <-chan T) T {
	t := BeforeBlock(site)
	v := <-ch
	AfterBlock(t)
	return v
}

// Recv2 wraps `v, ok := <-ch`.
func Recv2[T any](site uint32, ch <-chan T) (T, bool) {
	t := BeforeBlock(site)
	v, ok := <-ch
	AfterBlock(t)
	return v, ok
}

// OnceDo runs a sync.Once body without scheduling points (the Once holds a real mutex while the
// body runs, so parking inside it could block another task invisibly).
func OnceDo(do func(func()), f func()) {
	s := cur
	if s == nil {
		do(f)
		return
	}
	t := s.me()
	if t == nil {
		do(f)
		return
	}
	t.noYield++
	defer func() { t.noYield-- }()
	do(f)
}

// Now is time.Now plus the node's clock skew.
func Now() time.Time {
	n := time.Now()
	if s := cur; s != nil {
		if t := s.me(); t != nil && t.Node != nil {
			return n.Add(t.Node.Skew)
		}
	}
	return n
}

// ProcessExit models os.Exit / logger.Fatal: the node incarnation ends with everything written so
// far visible after restart.
func ProcessExit(reason string) {
	s := cur
	if s == nil {
		panic("process exit: " + reason)
	}
	t := s.me()
	if t == nil || t.Node == nil {
		panic("process exit outside a node: " + reason)
	}
	s.Probe("process_exit")
	t.Node.die(t.Inc, "fatal: "+reason, false)
	t.exiting = true
	runtime.Goexit()
}

// ExitCurrentTask ends the calling task (used by the disk layer at a planned crash).
func ExitCurrentTask() {
	if s := cur; s != nil {
		if t := s.me(); t != nil {
			t.exiting = true
		}
	}
	runtime.Goexit()
}

// CurrentNode returns the node of the running task (nil for harness tasks).
func CurrentNode() *Node {
	s := cur
	if s == nil {
		return nil
	}
	if t := s.me(); t != nil {
		return t.Node
	}
	return nil
}

// ---- nodes -------------------------------------------------------------------------------------

// NewNode registers a simulated process.
func (s *Sim) NewNode(name, dir string) *Node {
	n := &Node{Name: name, Dir: dir, deadCh: make(chan struct{})}
	s.nodes = append(s.nodes, n)
	return n
}

// Boot starts a new incarnation and returns its number.
func (n *Node) Boot() int {
	n.mu.Lock()
	defer n.mu.Unlock()
	n.inc++
	n.alive = true
	n.deadCh = make(chan struct{})
	n.DeathNote = ""
	return n.inc
}

func (n *Node) Incarnation() int {
	n.mu.Lock()
	defer n.mu.Unlock()
	return n.inc
}

func (n *Node) Alive() bool {
	n.mu.Lock()
	defer n.mu.Unlock()
	return n.alive
}

func (n *Node) aliveInc(inc int) bool {
	n.mu.Lock()
	defer n.mu.Unlock()
	return n.alive && n.inc == inc
}

// DeadCh is closed when the current incarnation dies.
func (n *Node) DeadCh() <-chan struct{} {
	n.mu.Lock()
	defer n.mu.Unlock()
	return n.deadCh
}

// die marks the incarnation dead. powerLoss is handled by the disk layer before calling this.
func (n *Node) die(inc int, note string, quiet bool) {
	n.mu.Lock()
	if !n.alive || n.inc != inc {
		n.mu.Unlock()
		return
	}
	n.alive = false
	if !quiet {
		n.DeathNote = note
	}
	close(n.deadCh)
	n.mu.Unlock()
	if OnNodeDeath != nil {
		OnNodeDeath(n)
	}
}

// Kill ends the current incarnation on behalf of the harness (note is remembered only if loud).
func (n *Node) Kill(note string, quiet bool) {
	n.die(n.Incarnation(), note, quiet)
}

// Note returns the death note of the last incarnation.
func (n *Node) Note() string {
	n.mu.Lock()
	defer n.mu.Unlock()
	return n.DeathNote
}

// OnNodeDeath is set by the disk layer to compute the post-exit image.
var OnNodeDeath func(n *Node)

// ---- harness helpers ---------------------------------------------------------------------------

// SleepSim lets a harness task wait for simulated time to pass.
func (s *Sim) SleepSim(d time.Duration) {
	Sleep(0, d)
}

// WaitTask blocks the calling task until t finished, the node died, or the simulated timeout
// elapsed. It returns "done", "dead" or "timeout".
func (s *Sim) WaitTask(t *Task, node *Node, timeout time.Duration) string {
	var dead <-chan struct{}
	if node != nil {
		dead = node.DeadCh()
	}
	me := BeforeBlock(0)
	tm := time.NewTimer(timeout)
	res := ""
	select {
	case <-t.DoneCh:
		res = "done"
	case <-dead:
		res = "dead"
	case <-tm.C:
		res = "timeout"
	}
	tm.Stop()
	AfterBlock(me)
	if res != "done" && s.Done(t) {
		res = "done"
	}
	return res
}

// DumpTasks describes all unfinished tasks (for stall diagnostics).
func (s *Sim) DumpTasks() string {
	s.mu.Lock()
	defer s.mu.Unlock()
	var lines []string
	names := map[taskState]string{stRunning: "running", stRunnable: "runnable", stLockWait: "lockwait", stExternal: "blocked", stDone: "done"}
	for _, t := range s.tasks {
		if t.state == stDone {
			continue
		}
		n := "-"
		if t.Node != nil {
			n = fmt.Sprintf("%s#%d", t.Node.Name, t.Inc)
		}
		lines = append(lines, fmt.Sprintf("%s %s %s site=%d", t.ID, n, names[t.state], t.waitSite))
	}
	sort.Strings(lines)
	return strings.Join(lines, "\n")
}

// WaitErr wraps errgroup.Group.Wait style calls.
func WaitErr(site uint32, wait func() error) error {
	t := BeforeBlock(site)
	err := wait()
	AfterBlock(t)
	return err
}

// Package simrand replaces math/rand in instrumented code: the top-level functions draw from a
// stream seeded by the run seed instead of the runtime's random seed.
package simrand

import (
	"math/rand"
	"sync"
)

type (
	Rand   = rand.Rand
	Source = rand.Source
)

var (
	mu  sync.Mutex
	def = rand.New(rand.NewSource(1))
)

// Seed re-seeds the default stream (called by the harness at the start of every run).
func Seed(seed uint64) {
	mu.Lock()
	def = rand.New(rand.NewSource(int64(seed)))
	mu.Unlock()
}

func New(src Source) *Rand         { return rand.New(src) }
func NewSource(seed int64) Source  { return rand.NewSource(seed) }
func Int63() int64                 { mu.Lock(); defer mu.Unlock(); return def.Int63() }
func Int63n(n int64) int64         { mu.Lock(); defer mu.Unlock(); return def.Int63n(n) }
func Int31() int32                 { mu.Lock(); defer mu.Unlock(); return def.Int31() }
func Int31n(n int32) int32         { mu.Lock(); defer mu.Unlock(); return def.Int31n(n) }
func Int() int                     { mu.Lock(); defer mu.Unlock(); return def.Int() }
func Intn(n int) int               { mu.Lock(); defer mu.Unlock(); return def.Intn(n) }
func Uint32() uint32               { mu.Lock(); defer mu.Unlock(); return def.Uint32() }
func Uint64() uint64               { mu.Lock(); defer mu.Unlock(); return def.Uint64() }
func Float64() float64             { mu.Lock(); defer mu.Unlock(); return def.Float64() }
func Float32() float32             { mu.Lock(); defer mu.Unlock(); return def.Float32() }
func Perm(n int) []int             { mu.Lock(); defer mu.Unlock(); return def.Perm(n) }
func Shuffle(n int, swap func(i, j int)) {
	mu.Lock()
	defer mu.Unlock()
	def.Shuffle(n, swap)
}
func Read(p []byte) (int, error) { mu.Lock(); defer mu.Unlock(); return def.Read(p) }

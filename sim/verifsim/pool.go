package verifsim

import "sync"

// Pool replaces sync.Pool in instrumented code. sync.Pool caches per OS-thread context (P) and is
// emptied by the garbage collector, so whether Get returns a cached object - and with it buffer
// capacities and the code path taken - depends on thread placement and GC timing. This pool is a
// plain LIFO free list: one of the legal behaviours of sync.Pool, and a deterministic one.
type Pool struct {
	New func() any

	mu    sync.Mutex
	items []any
	known bool
}

var (
	poolsMu  sync.Mutex
	allPools []*Pool
)

// ResetPools empties every pool: engines that execute many runs in one process start each run
// with cold pools, so that a run does not depend on the runs before it (and replays alone).
func ResetPools() {
	poolsMu.Lock()
	ps := append([]*Pool(nil), allPools...)
	poolsMu.Unlock()
	for _, p := range ps {
		p.mu.Lock()
		clear(p.items)
		p.items = p.items[:0]
		p.mu.Unlock()
	}
}

// register must be called with p.mu held.
func (p *Pool) register() {
	if !p.known {
		p.known = true
		poolsMu.Lock()
		allPools = append(allPools, p)
		poolsMu.Unlock()
	}
}

func (p *Pool) Get() any {
	p.mu.Lock()
	if n := len(p.items); n > 0 {
		x := p.items[n-1]
		p.items[n-1] = nil
		p.items = p.items[:n-1]
		p.mu.Unlock()
		return x
	}
	p.mu.Unlock()
	if p.New != nil {
		return p.New()
	}
	return nil
}

func (p *Pool) Put(x any) {
	if x == nil {
		return
	}
	p.mu.Lock()
	p.register()
	if len(p.items) < 32 {
		p.items = append(p.items, x)
	}
	p.mu.Unlock()
}

// Package simos is the simulated disk: an in-memory file system with an ordered-journal
// durability model, crash (power loss / process exit) images and injected I/O errors.
// Instrumented seq-db code uses it instead of package os (same identifiers).
package simos

import (
	"errors"
	"fmt"
	"io"
	"io/fs"
	"os"
	"path/filepath"
	"sort"
	"strings"
	"sync"
	"syscall"
	"time"

	"github.com/ozontech/seq-db/verifsim"
)

// re-exported identifiers of package os used by seq-db
const (
	O_RDONLY = os.O_RDONLY
	O_WRONLY = os.O_WRONLY
	O_RDWR   = os.O_RDWR
	O_APPEND = os.O_APPEND
	O_CREATE = os.O_CREATE
	O_EXCL   = os.O_EXCL
	O_SYNC   = os.O_SYNC
	O_TRUNC  = os.O_TRUNC
)

var (
	ErrNotExist = os.ErrNotExist
	ErrExist    = os.ErrExist
	ErrClosed   = os.ErrClosed
	Stderr      = os.Stderr
	Stdout      = os.Stdout
)

type (
	FileInfo = fs.FileInfo
	FileMode = fs.FileMode
)

func IsNotExist(err error) bool { return os.IsNotExist(err) }
func IsExist(err error) bool    { return os.IsExist(err) }
func Getenv(k string) string    { return os.Getenv(k) }

// Root is the prefix of all simulated paths; everything else falls through to the real os.
const Root = "/sim/"

type pendingWrite struct {
	off      int64
	data     []byte
	truncate bool // truncate to off
}

type inode struct {
	id      int
	isDir   bool
	data    []byte // volatile content
	durable []byte // content made durable by the last Sync (nil: nothing)
	pending []pendingWrite
	modTime time.Time
}

type nsOp struct {
	kind    string // create, rename, remove
	path    string
	newPath string
	ino     *inode
}

// Disk is the storage of one node (one machine).
type Disk struct {
	prefix    string
	names     map[string]*inode
	committed map[string]*inode
	everDur   map[string]bool // paths that were part of the durable namespace at some point
	journal   []nsOp
	nextIno   int
	mutOps    int // mutating operations performed (all incarnations)
	Used      int64
	Capacity  int64 // 0 = unlimited
}

// Fault is one entry of the fault plan.
type Fault struct {
	Node       string `json:"node,omitempty"`   // node name, "" = any
	Op         string `json:"op"`               // write | sync | dirsync | rename | create | remove | mut (any mutating)
	PathSuffix string `json:"path,omitempty"`   // suffix the path must have, "" = any
	Nth        int    `json:"nth"`              // fire at the n-th matching operation after arming (1-based)
	Action     string `json:"action"`           // crash | exit | eio | enospc | short
	ImageSeed  uint64 `json:"image_seed"`       // decides the power-loss image
	ImageMode  string `json:"image,omitempty"`  // "" random | all | none
	Group      int    `json:"group,omitempty"`  // harness-defined: faults are armed by group
	After      bool   `json:"after,omitempty"`  // crash after the operation took effect instead of before

	Armed bool `json:"-"`
	Count int  `json:"-"`
	Fired bool `json:"-"`
	// filled when fired
	FiredAt string `json:"fired_at,omitempty"`
}

// World is the set of disks plus the fault plan of one run.
type World struct {
	mu          sync.Mutex
	disks       []*Disk
	Plan        []*Fault
	SyncLatency time.Duration
	FsyncCommitsJournal bool // ext4-like: fsync of a file also commits earlier namespace operations
	Stats       map[string]int
	Log         []string // mutating operations (bounded), for traces
	LogLimit    int
	tmpCounter  int
	OnCrash     func(node *verifsim.Node, f *Fault)
}

var world *World

// Install makes w the active world (one per run).
func Install(w *World) {
	world = w
	verifsim.OnNodeDeath = nil
}

func NewWorld() *World {
	return &World{Stats: map[string]int{}, LogLimit: 4000}
}

// AddDisk creates the disk of a node; dir must start with Root.
func (w *World) AddDisk(dir string) *Disk {
	if !strings.HasPrefix(dir, Root) {
		panic("simos: disk dir must be under " + Root)
	}
	if !strings.HasSuffix(dir, "/") {
		dir += "/"
	}
	d := &Disk{prefix: dir, names: map[string]*inode{}, committed: map[string]*inode{}}
	root := &inode{isDir: true}
	d.names[strings.TrimSuffix(dir, "/")] = root
	d.committed[strings.TrimSuffix(dir, "/")] = root
	w.disks = append(w.disks, d)
	return d
}

func (w *World) diskOf(path string) *Disk {
	for _, d := range w.disks {
		if strings.HasPrefix(path, d.prefix) || path == strings.TrimSuffix(d.prefix, "/") {
			return d
		}
	}
	return nil
}

func simulated(path string) bool {
	return world != nil && strings.HasPrefix(path, Root)
}

// File mirrors *os.File.
type File struct {
	real *os.File

	w      *World
	d      *Disk
	ino    *inode
	name   string
	pos    int64
	flag   int
	closed bool
	inc    int
	node   *verifsim.Node
}

type fileInfo struct {
	name string
	size int64
	dir  bool
	mt   time.Time
}

func (fi fileInfo) Name() string       { return fi.name }
func (fi fileInfo) Size() int64        { return fi.size }
func (fi fileInfo) Mode() fs.FileMode  { if fi.dir { return fs.ModeDir | 0o755 }; return 0o644 }
func (fi fileInfo) ModTime() time.Time { return fi.mt }
func (fi fileInfo) IsDir() bool        { return fi.dir }
func (fi fileInfo) Sys() any           { return nil }

var errDead = errors.New("simos: process is dead")

func pathErr(op, path string, err error) error { return &fs.PathError{Op: op, Path: path, Err: err} }

// deadCaller reports whether the calling task belongs to a dead incarnation (its I/O is void).
func deadCaller() bool {
	n := verifsim.CurrentNode()
	return n != nil && !n.Alive()
}

func (w *World) logOp(format string, a ...any) {
	if len(w.Log) < w.LogLimit {
		w.Log = append(w.Log, fmt.Sprintf(format, a...))
	}
}

// fault checks the plan for a mutating operation; returns the action to take ("" = none).
// Must be called with w.mu held. A crash action is performed by the caller after unlocking.
func (w *World) fault(op, path string) *Fault {
	node := verifsim.CurrentNode()
	nodeName := ""
	if node != nil {
		nodeName = node.Name
	}
	for _, f := range w.Plan {
		if !f.Armed || f.Fired {
			continue
		}
		if f.Node != "" && f.Node != nodeName {
			continue
		}
		if f.Op != "mut" && f.Op != op {
			continue
		}
		if op == "read" && f.Op != "read" {
			continue // "mut" counts mutating operations only
		}
		if f.PathSuffix != "" && !strings.HasSuffix(path, f.PathSuffix) {
			continue
		}
		f.Count++
		if f.Count == f.Nth {
			f.Fired = true
			f.FiredAt = fmt.Sprintf("%s %s", op, filepath.Base(path))
			w.Stats["fired_"+f.Action]++
			return f
		}
	}
	return nil
}

// crashNow performs a planned crash on the calling task's node and never returns.
func (w *World) crashNow(f *Fault) {
	node := verifsim.CurrentNode()
	if node == nil {
		panic("simos: crash fault fired on a harness task")
	}
	w.mu.Lock()
	if f.Action == "crash" {
		w.powerLossLocked(node, f.ImageSeed, f.ImageMode)
	}
	w.logOp("CRASH(%s) node=%s at %s", f.Action, node.Name, f.FiredAt)
	w.mu.Unlock()
	if w.OnCrash != nil {
		w.OnCrash(node, f)
	}
	node.Kill("planned "+f.Action, true)
	verifsim.ExitCurrentTask()
}

// PowerLoss computes the post-crash image of the node's disk (harness-triggered crash).
func (w *World) PowerLoss(node *verifsim.Node, seed uint64, mode string) {
	w.mu.Lock()
	defer w.mu.Unlock()
	w.powerLossLocked(node, seed, mode)
}

func tornLen(r *verifsim.SplitMix, n int) int {
	if n <= 1 {
		return 0
	}
	c := []int{0, 1, 32, 33, 34, n - 1, n / 2}
	v := c[r.Intn(len(c))]
	if r.Bool(0.4) {
		v = r.Intn(n)
	}
	if v >= n {
		v = n - 1
	}
	if v < 0 {
		v = 0
	}
	return v
}

func applyWrite(buf []byte, pw pendingWrite, n int) []byte {
	if pw.truncate {
		if int64(len(buf)) > pw.off {
			return buf[:pw.off]
		}
		for int64(len(buf)) < pw.off {
			buf = append(buf, 0)
		}
		return buf
	}
	end := pw.off + int64(n)
	for int64(len(buf)) < end {
		buf = append(buf, 0)
	}
	copy(buf[pw.off:end], pw.data[:n])
	return buf
}

func (w *World) powerLossLocked(node *verifsim.Node, seed uint64, mode string) {
	d := w.diskOf(node.Dir + "/x")
	if d == nil {
		return
	}
	r := verifsim.NewSplitMix(seed)
	// namespace: committed + prefix of the journal
	j := len(d.journal)
	switch mode {
	case "all":
	case "none":
		j = 0
	default:
		switch x := r.Intn(10); {
		case x < 3:
		case x < 5:
			j = 0
		default:
			j = r.Intn(len(d.journal) + 1)
		}
	}
	names := map[string]*inode{}
	for p, ino := range d.committed {
		names[p] = ino
	}
	for _, op := range d.journal[:j] {
		applyNs(names, op)
		d.noteDurable(op)
	}
	w.Stats["crash_images"]++
	if j < len(d.journal) {
		w.Stats["crash_lost_ns_ops"] += len(d.journal) - j
	}
	// content: durable + prefix of pending (+ torn next)
	seen := map[*inode]bool{}
	paths := make([]string, 0, len(names))
	for p := range names {
		paths = append(paths, p)
	}
	sort.Strings(paths)
	var used int64
	for _, p := range paths {
		ino := names[p]
		if seen[ino] {
			continue
		}
		seen[ino] = true
		if ino.isDir {
			continue
		}
		buf := append([]byte(nil), ino.durable...)
		k := len(ino.pending)
		switch mode {
		case "all":
		case "none":
			k = 0
		default:
			switch x := r.Intn(10); {
			case x < 3:
			case x < 5:
				k = 0
			default:
				k = r.Intn(len(ino.pending) + 1)
			}
		}
		for _, pw := range ino.pending[:k] {
			buf = applyWrite(buf, pw, len(pw.data))
		}
		if k < len(ino.pending) {
			w.Stats["crash_lost_writes"] += len(ino.pending) - k
			pw := ino.pending[k]
			if !pw.truncate && mode == "" && r.Bool(0.6) {
				n := tornLen(r, len(pw.data))
				if n > 0 {
					buf = applyWrite(buf, pw, n)
					w.Stats["crash_torn_writes"]++
					w.logOp("  torn %s: %d of %d bytes at %d", filepath.Base(p), n, len(pw.data), pw.off)
				}
			}
		}
		ino.data = buf
		ino.durable = append([]byte(nil), buf...)
		ino.pending = nil
		used += int64(len(buf))
	}
	d.names = names
	d.committed = map[string]*inode{}
	for p, ino := range names {
		d.committed[p] = ino
	}
	d.journal = nil
	d.Used = used
}

func applyNs(names map[string]*inode, op nsOp) {
	switch op.kind {
	case "create":
		names[op.path] = op.ino
	case "remove":
		delete(names, op.path)
	case "rename":
		if ino, ok := names[op.path]; ok {
			delete(names, op.path)
			names[op.newPath] = ino
		}
	}
}

func (d *Disk) commitJournal() {
	for _, op := range d.journal {
		applyNs(d.committed, op)
		d.noteDurable(op)
	}
	d.journal = nil
}

func (d *Disk) noteDurable(op nsOp) {
	if d.everDur == nil {
		d.everDur = map[string]bool{}
	}
	switch op.kind {
	case "create":
		d.everDur[op.path] = true
	case "rename":
		d.everDur[op.newPath] = true
	}
}

// EverDurable reports the paths under dir that were in the durable namespace at some point of the
// disk's life (committed by a directory sync, or present in a crash image).
func (w *World) EverDurable(dir string) map[string]bool {
	w.mu.Lock()
	defer w.mu.Unlock()
	out := map[string]bool{}
	if d := w.diskOf(dir + "/x"); d != nil {
		for p := range d.everDur {
			out[p] = true
		}
	}
	return out
}

func (d *Disk) parentExists(path string) bool {
	ino, ok := d.names[filepath.Dir(path)]
	return ok && ino.isDir
}

// ---- package-level functions mirroring os ------------------------------------------------------

func OpenFile(name string, flag int, perm fs.FileMode) (*File, error) {
	if !simulated(name) {
		f, err := os.OpenFile(name, flag, perm)
		if err != nil {
			return nil, err
		}
		return &File{real: f}, nil
	}
	name = filepath.Clean(name)
	w := world
	creating := flag&O_CREATE != 0
	if creating {
		verifsim.Yield(siteDisk)
	}
	if deadCaller() {
		return nil, pathErr("open", name, errDead)
	}
	w.mu.Lock()
	d := w.diskOf(name)
	if d == nil {
		w.mu.Unlock()
		return nil, pathErr("open", name, ErrNotExist)
	}
	ino, ok := d.names[name]
	if !ok {
		if !creating {
			w.mu.Unlock()
			return nil, pathErr("open", name, ErrNotExist)
		}
		if !d.parentExists(name) {
			w.mu.Unlock()
			return nil, pathErr("open", name, ErrNotExist)
		}
		if f := w.fault("create", name); f != nil {
			w.mu.Unlock()
			if err := w.act(f, "open", name); err != nil {
				return nil, err
			}
			w.mu.Lock()
		}
		d.mutOps++
		d.nextIno++
		ino = &inode{id: d.nextIno, modTime: time.Now()}
		d.names[name] = ino
		d.journal = append(d.journal, nsOp{kind: "create", path: name, ino: ino})
		w.Stats["op_create"]++
		w.logOp("create %s", filepath.Base(name))
	} else if creating && flag&O_EXCL != 0 {
		w.mu.Unlock()
		return nil, pathErr("open", name, ErrExist)
	}
	f := &File{w: w, d: d, ino: ino, name: name, flag: flag, node: verifsim.CurrentNode()}
	if flag&O_TRUNC != 0 && !ino.isDir && len(ino.data) > 0 {
		w.truncateLocked(f, 0)
	}
	if flag&O_APPEND != 0 {
		f.pos = int64(len(ino.data))
	}
	w.mu.Unlock()
	return f, nil
}

// act performs a fired fault: crash/exit never return, errors are returned.
func (w *World) act(f *Fault, op, path string) error {
	switch f.Action {
	case "crash", "exit":
		w.crashNow(f)
		return nil
	case "enospc":
		return pathErr(op, path, syscall.ENOSPC)
	default:
		return pathErr(op, path, syscall.EIO)
	}
}

func Open(name string) (*File, error) { return OpenFile(name, O_RDONLY, 0) }

func Create(name string) (*File, error) {
	return OpenFile(name, O_RDWR|O_CREATE|O_TRUNC, 0o666)
}

func CreateTemp(dir, pattern string) (*File, error) {
	if !simulated(dir) {
		f, err := os.CreateTemp(dir, pattern)
		if err != nil {
			return nil, err
		}
		return &File{real: f}, nil
	}
	w := world
	w.mu.Lock()
	w.tmpCounter++
	n := w.tmpCounter
	w.mu.Unlock()
	prefix, suffix := pattern, ""
	if i := strings.LastIndex(pattern, "*"); i >= 0 {
		prefix, suffix = pattern[:i], pattern[i+1:]
	}
	return OpenFile(filepath.Join(dir, fmt.Sprintf("%s%09d%s", prefix, n, suffix)), O_RDWR|O_CREATE|O_EXCL, 0o600)
}

func Rename(oldpath, newpath string) error {
	if !simulated(oldpath) {
		return os.Rename(oldpath, newpath)
	}
	oldpath, newpath = filepath.Clean(oldpath), filepath.Clean(newpath)
	verifsim.Yield(siteDisk)
	if deadCaller() {
		return pathErr("rename", oldpath, errDead)
	}
	w := world
	w.mu.Lock()
	d := w.diskOf(oldpath)
	if d == nil || w.diskOf(newpath) != d {
		w.mu.Unlock()
		return pathErr("rename", oldpath, ErrNotExist)
	}
	ino, ok := d.names[oldpath]
	if !ok {
		w.mu.Unlock()
		return &os.LinkError{Op: "rename", Old: oldpath, New: newpath, Err: syscall.ENOENT}
	}
	var after *Fault
	if f := w.fault("rename", newpath); f != nil {
		if f.After && (f.Action == "crash" || f.Action == "exit") {
			after = f
		} else {
			w.mu.Unlock()
			if err := w.act(f, "rename", oldpath); err != nil {
				return err
			}
			w.mu.Lock()
		}
	}
	d.mutOps++
	if strings.HasSuffix(oldpath, ".docs") && strings.HasSuffix(newpath, ".docs.del") {
		if _, ok := d.names[strings.TrimSuffix(oldpath, ".docs")+".sdocs"]; ok {
			w.Stats["probe_delete_of_fraction_with_docs_and_sdocs"]++
		}
	}
	delete(d.names, oldpath)
	d.names[newpath] = ino
	d.journal = append(d.journal, nsOp{kind: "rename", path: oldpath, newPath: newpath})
	w.Stats["op_rename"]++
	w.logOp("rename %s -> %s", filepath.Base(oldpath), filepath.Base(newpath))
	w.mu.Unlock()
	if after != nil {
		w.crashNow(after)
	}
	return nil
}

func Remove(name string) error {
	if !simulated(name) {
		return os.Remove(name)
	}
	name = filepath.Clean(name)
	verifsim.Yield(siteDisk)
	if deadCaller() {
		return pathErr("remove", name, errDead)
	}
	w := world
	w.mu.Lock()
	d := w.diskOf(name)
	if d == nil {
		w.mu.Unlock()
		return pathErr("remove", name, ErrNotExist)
	}
	ino, ok := d.names[name]
	if !ok {
		w.mu.Unlock()
		return pathErr("remove", name, ErrNotExist)
	}
	if f := w.fault("remove", name); f != nil {
		w.mu.Unlock()
		if err := w.act(f, "remove", name); err != nil {
			return err
		}
		w.mu.Lock()
	}
	d.mutOps++
	delete(d.names, name)
	d.Used -= int64(len(ino.data))
	d.journal = append(d.journal, nsOp{kind: "remove", path: name})
	w.Stats["op_remove"]++
	w.logOp("remove %s", filepath.Base(name))
	w.mu.Unlock()
	return nil
}

func Stat(name string) (FileInfo, error) {
	if !simulated(name) {
		return os.Stat(name)
	}
	name = filepath.Clean(name)
	w := world
	w.mu.Lock()
	defer w.mu.Unlock()
	d := w.diskOf(name)
	if d == nil {
		return nil, pathErr("stat", name, ErrNotExist)
	}
	ino, ok := d.names[name]
	if !ok {
		return nil, pathErr("stat", name, ErrNotExist)
	}
	return fileInfo{name: filepath.Base(name), size: int64(len(ino.data)), dir: ino.isDir, mt: ino.modTime}, nil
}

func ReadFile(name string) ([]byte, error) {
	if !simulated(name) {
		return os.ReadFile(name)
	}
	name = filepath.Clean(name)
	w := world
	w.mu.Lock()
	defer w.mu.Unlock()
	d := w.diskOf(name)
	if d == nil {
		return nil, pathErr("open", name, ErrNotExist)
	}
	ino, ok := d.names[name]
	if !ok || ino.isDir {
		return nil, pathErr("open", name, ErrNotExist)
	}
	return append([]byte(nil), ino.data...), nil
}

func WriteFile(name string, data []byte, perm fs.FileMode) error {
	f, err := OpenFile(name, O_WRONLY|O_CREATE|O_TRUNC, perm)
	if err != nil {
		return err
	}
	_, err = f.Write(data)
	if err1 := f.Close(); err1 != nil && err == nil {
		err = err1
	}
	return err
}

func MkdirAll(path string, perm fs.FileMode) error {
	if !simulated(path) {
		return os.MkdirAll(path, perm)
	}
	path = filepath.Clean(path)
	if deadCaller() {
		return pathErr("mkdir", path, errDead)
	}
	w := world
	w.mu.Lock()
	defer w.mu.Unlock()
	d := w.diskOf(path)
	if d == nil {
		return pathErr("mkdir", path, ErrNotExist)
	}
	var todo []string
	for p := path; ; p = filepath.Dir(p) {
		if ino, ok := d.names[p]; ok {
			if !ino.isDir {
				return pathErr("mkdir", p, syscall.ENOTDIR)
			}
			break
		}
		todo = append(todo, p)
		if len(p) <= len(Root) {
			return pathErr("mkdir", path, ErrNotExist)
		}
	}
	for i := len(todo) - 1; i >= 0; i-- {
		ino := &inode{isDir: true, modTime: time.Now()}
		d.names[todo[i]] = ino
		d.journal = append(d.journal, nsOp{kind: "create", path: todo[i], ino: ino})
		d.mutOps++
		w.logOp("mkdir %s", filepath.Base(todo[i]))
	}
	return nil
}

func Mkdir(path string, perm fs.FileMode) error { return MkdirAll(path, perm) }

// Glob mirrors filepath.Glob for simulated paths.
func Glob(pattern string) ([]string, error) {
	if !simulated(pattern) {
		return filepath.Glob(pattern)
	}
	w := world
	w.mu.Lock()
	defer w.mu.Unlock()
	d := w.diskOf(pattern)
	if d == nil {
		return nil, nil
	}
	var out []string
	for p := range d.names {
		ok, err := filepath.Match(pattern, p)
		if err != nil {
			return nil, err
		}
		if ok {
			out = append(out, p)
		}
	}
	sort.Strings(out)
	return out, nil
}

// ---- File methods ------------------------------------------------------------------------------

func (f *File) Name() string {
	if f.real != nil {
		return f.real.Name()
	}
	return f.name
}

func (f *File) check(op string) error {
	if f.closed {
		return pathErr(op, f.name, ErrClosed)
	}
	if deadCaller() {
		return pathErr(op, f.name, errDead)
	}
	return nil
}

func (f *File) Stat() (FileInfo, error) {
	if f.real != nil {
		return f.real.Stat()
	}
	if f.closed {
		return nil, pathErr("stat", f.name, ErrClosed)
	}
	f.w.mu.Lock()
	defer f.w.mu.Unlock()
	return fileInfo{name: filepath.Base(f.name), size: int64(len(f.ino.data)), dir: f.ino.isDir, mt: f.ino.modTime}, nil
}

func (f *File) ReadAt(b []byte, off int64) (int, error) {
	if f.real != nil {
		return f.real.ReadAt(b, off)
	}
	if err := f.check("read"); err != nil {
		return 0, err
	}
	f.w.mu.Lock()
	defer f.w.mu.Unlock()
	// a planned read error (transient: it fires once)
	if ft := f.w.fault("read", f.name); ft != nil {
		f.w.logOp("read %s off=%d len=%d -> EIO (planned)", filepath.Base(f.name), off, len(b))
		return 0, pathErr("read", f.name, syscall.EIO)
	}
	if off >= int64(len(f.ino.data)) {
		return 0, io.EOF
	}
	n := copy(b, f.ino.data[off:])
	if n < len(b) {
		return n, io.EOF
	}
	return n, nil
}

func (f *File) Read(b []byte) (int, error) {
	if f.real != nil {
		return f.real.Read(b)
	}
	if err := f.check("read"); err != nil {
		return 0, err
	}
	f.w.mu.Lock()
	defer f.w.mu.Unlock()
	if f.pos >= int64(len(f.ino.data)) {
		return 0, io.EOF
	}
	n := copy(b, f.ino.data[f.pos:])
	f.pos += int64(n)
	return n, nil
}

func (f *File) Seek(offset int64, whence int) (int64, error) {
	if f.real != nil {
		return f.real.Seek(offset, whence)
	}
	if f.closed {
		return 0, pathErr("seek", f.name, ErrClosed)
	}
	f.w.mu.Lock()
	defer f.w.mu.Unlock()
	switch whence {
	case io.SeekStart:
		f.pos = offset
	case io.SeekCurrent:
		f.pos += offset
	case io.SeekEnd:
		f.pos = int64(len(f.ino.data)) + offset
	}
	if f.pos < 0 {
		f.pos = 0
		return 0, pathErr("seek", f.name, syscall.EINVAL)
	}
	return f.pos, nil
}

func (f *File) Write(b []byte) (int, error) {
	if f.real != nil {
		return f.real.Write(b)
	}
	if f.flag&O_APPEND != 0 {
		f.w.mu.Lock()
		f.pos = int64(len(f.ino.data))
		f.w.mu.Unlock()
	}
	n, err := f.writeAt(b, f.pos)
	f.pos += int64(n)
	return n, err
}

func (f *File) WriteString(s string) (int, error) { return f.Write([]byte(s)) }

func (f *File) WriteAt(b []byte, off int64) (int, error) {
	if f.real != nil {
		return f.real.WriteAt(b, off)
	}
	return f.writeAt(b, off)
}

func (f *File) writeAt(b []byte, off int64) (int, error) {
	verifsim.Yield(siteDisk)
	if err := f.check("write"); err != nil {
		return 0, err
	}
	if f.flag&(O_WRONLY|O_RDWR) == 0 {
		return 0, pathErr("write", f.name, syscall.EBADF)
	}
	w := f.w
	w.mu.Lock()
	n := len(b)
	var retErr error
	var after *Fault
	if ft := w.fault("write", f.name); ft != nil {
		switch ft.Action {
		case "crash", "exit":
			if ft.After {
				after = ft
			} else {
				w.mu.Unlock()
				w.crashNow(ft)
			}
		case "short":
			n = len(b) / 2
			retErr = pathErr("write", f.name, syscall.EIO)
		case "enospc":
			n = 0
			retErr = pathErr("write", f.name, syscall.ENOSPC)
		default:
			n = 0
			retErr = pathErr("write", f.name, syscall.EIO)
		}
	}
	grow := off + int64(n) - int64(len(f.ino.data))
	if retErr == nil && f.d.Capacity > 0 && grow > 0 && f.d.Used+grow > f.d.Capacity {
		n = 0
		retErr = pathErr("write", f.name, syscall.ENOSPC)
		w.Stats["fired_capacity"]++
	}
	if n > 0 {
		data := append([]byte(nil), b[:n]...)
		pw := pendingWrite{off: off, data: data}
		before := len(f.ino.data)
		f.ino.data = applyWrite(f.ino.data, pw, n)
		f.d.Used += int64(len(f.ino.data) - before)
		f.ino.pending = append(f.ino.pending, pw)
		f.ino.modTime = time.Now()
		f.d.mutOps++
		w.Stats["op_write"]++
		w.logOp("write %s off=%d len=%d", filepath.Base(f.name), off, n)
	}
	w.mu.Unlock()
	if after != nil {
		w.crashNow(after)
	}
	return n, retErr
}

func (w *World) truncateLocked(f *File, size int64) {
	pw := pendingWrite{off: size, truncate: true}
	before := len(f.ino.data)
	f.ino.data = applyWrite(f.ino.data, pw, 0)
	f.d.Used += int64(len(f.ino.data) - before)
	f.ino.pending = append(f.ino.pending, pw)
	f.d.mutOps++
	w.logOp("truncate %s to %d", filepath.Base(f.name), size)
}

func (f *File) Truncate(size int64) error {
	if f.real != nil {
		return f.real.Truncate(size)
	}
	verifsim.Yield(siteDisk)
	if err := f.check("truncate"); err != nil {
		return err
	}
	f.w.mu.Lock()
	defer f.w.mu.Unlock()
	f.w.truncateLocked(f, size)
	return nil
}

func (f *File) Sync() error {
	if f.real != nil {
		return f.real.Sync()
	}
	if err := f.check("sync"); err != nil {
		return err
	}
	w := f.w
	if w.SyncLatency > 0 {
		verifsim.Sleep(siteDisk, w.SyncLatency)
	} else {
		verifsim.Yield(siteDisk)
	}
	if err := f.check("sync"); err != nil {
		return err
	}
	w.mu.Lock()
	op := "sync"
	if f.ino.isDir {
		op = "dirsync"
	}
	var after *Fault
	if ft := w.fault(op, f.name); ft != nil {
		if ft.After && (ft.Action == "crash" || ft.Action == "exit") {
			after = ft
		} else {
			w.mu.Unlock()
			if err := w.act(ft, "sync", f.name); err != nil {
				return err
			}
			w.mu.Lock()
		}
	}
	f.d.mutOps++
	if f.ino.isDir {
		f.d.commitJournal()
		w.Stats["op_dirsync"]++
		w.logOp("dirsync %s", filepath.Base(f.name))
	} else {
		f.ino.durable = append([]byte(nil), f.ino.data...)
		f.ino.pending = nil
		if w.FsyncCommitsJournal {
			f.d.commitJournal()
		}
		w.Stats["op_sync"]++
		w.logOp("sync %s (%d bytes)", filepath.Base(f.name), len(f.ino.data))
	}
	w.mu.Unlock()
	if after != nil {
		w.crashNow(after)
	}
	return nil
}

func (f *File) Close() error {
	if f.real != nil {
		return f.real.Close()
	}
	if f.closed {
		return pathErr("close", f.name, ErrClosed)
	}
	f.closed = true
	return nil
}

func (f *File) Fd() uintptr {
	if f.real != nil {
		return f.real.Fd()
	}
	return ^uintptr(0)
}

// ---- harness access ----------------------------------------------------------------------------

// Arm arms all faults of a group (0 = all groups).
func (w *World) Arm(group int) {
	w.mu.Lock()
	defer w.mu.Unlock()
	for _, f := range w.Plan {
		if group == 0 || f.Group == group {
			if !f.Fired {
				f.Armed = true
			}
		}
	}
}

// Disarm disarms all faults.
func (w *World) Disarm() {
	w.mu.Lock()
	defer w.mu.Unlock()
	for _, f := range w.Plan {
		f.Armed = false
	}
}

// List returns path -> size of a node's volatile namespace.
func (w *World) List(dir string) map[string]int {
	w.mu.Lock()
	defer w.mu.Unlock()
	out := map[string]int{}
	d := w.diskOf(dir + "/x")
	if d == nil {
		return out
	}
	for p, ino := range d.names {
		if !ino.isDir {
			out[p] = len(ino.data)
		}
	}
	return out
}

// Tamper lets the harness overwrite or delete a file directly (e.g. a corrupt .frac-cache);
// the change is durable. data == nil deletes.
func (w *World) Tamper(path string, data []byte) {
	w.mu.Lock()
	defer w.mu.Unlock()
	d := w.diskOf(path)
	if d == nil {
		return
	}
	if data == nil {
		delete(d.names, path)
		delete(d.committed, path)
		return
	}
	ino, ok := d.names[path]
	if !ok {
		d.nextIno++
		ino = &inode{id: d.nextIno}
		d.names[path] = ino
		d.committed[path] = ino
	}
	ino.data = append([]byte(nil), data...)
	ino.durable = append([]byte(nil), data...)
	ino.pending = nil
}

// Peek returns the current (volatile) content of a file, nil if it does not exist.
func (w *World) Peek(path string) []byte {
	w.mu.Lock()
	defer w.mu.Unlock()
	d := w.diskOf(path)
	if d == nil {
		return nil
	}
	ino, ok := d.names[path]
	if !ok || ino.isDir {
		return nil
	}
	return append([]byte(nil), ino.data...)
}

// MutOps returns the number of mutating operations the node's disk has seen.
func (w *World) MutOps(dir string) int {
	w.mu.Lock()
	defer w.mu.Unlock()
	if d := w.diskOf(dir + "/x"); d != nil {
		return d.mutOps
	}
	return 0
}

// PendingSummary describes what is not yet durable on a node's disk (for probes).
func (w *World) PendingSummary(dir string) (nsOps int, files int) {
	w.mu.Lock()
	defer w.mu.Unlock()
	d := w.diskOf(dir + "/x")
	if d == nil {
		return 0, 0
	}
	for _, ino := range d.names {
		if len(ino.pending) > 0 {
			files++
		}
	}
	return len(d.journal), files
}

const siteDisk = 1

func (f *File) Chmod(mode fs.FileMode) error {
	if f.real != nil {
		return f.real.Chmod(mode)
	}
	return nil
}

package verifsim

import (
	"cmp"
	"reflect"
	"slices"
)

// MapIter replaces `for k, v := range m` over maps in instrumented code. Go randomises the order of
// map iteration from a per-process source the simulator cannot seed; where the loop body talks to
// stores, starts tasks or sleeps, that order decides the rest of the run (found by the determinism
// self-test of the cluster engine: the proxy opens its per-store fetch streams in map order). The
// iterator visits the keys that were present when the loop started, in an order that is a function
// of the run's seed: sorted, then shuffled by a PRNG derived from (seed, site, how often the site was
// reached). A key deleted before it is reached is skipped and keys added meanwhile are not visited:
// both are behaviours the language allows.
//
// Keys that cannot be ordered by value (pointers, interfaces, channels) keep Go's own order; the
// probe "map_range_unordered" counts those loops.
type Iter[K comparable, V any] struct {
	m    map[K]V
	keys []K
	i    int
	k    K
	v    V
}

func MapIter[M ~map[K]V, K comparable, V any](site uint32, m M) *Iter[K, V] {
	it := &Iter[K, V]{m: m}
	if len(m) == 0 {
		return it
	}
	it.keys = make([]K, 0, len(m))
	for k := range m {
		it.keys = append(it.keys, k)
	}
	if len(it.keys) > 1 {
		if sortKeys(it.keys) {
			shuffleKeys(site, it.keys)
		} else {
			Probe("map_range_unordered")
		}
	}
	return it
}

// Next advances to the next key that is still in the map.
func (it *Iter[K, V]) Next() bool {
	for it.i < len(it.keys) {
		k := it.keys[it.i]
		it.i++
		if v, ok := it.m[k]; ok {
			it.k, it.v = k, v
			return true
		}
	}
	return false
}

func (it *Iter[K, V]) Key() K { return it.k }
func (it *Iter[K, V]) Val() V { return it.v }

func sortKeys[K comparable](keys []K) bool {
	switch ks := any(keys).(type) {
	case []string:
		slices.Sort(ks)
		return true
	case []int:
		slices.Sort(ks)
		return true
	case []int64:
		slices.Sort(ks)
		return true
	case []uint32:
		slices.Sort(ks)
		return true
	case []uint64:
		slices.Sort(ks)
		return true
	}
	if !orderable(reflect.TypeOf(keys).Elem()) {
		return false
	}
	vals := make([]reflect.Value, len(keys))
	for i := range keys {
		vals[i] = reflect.ValueOf(&keys[i]).Elem()
	}
	idx := make([]int, len(keys))
	for i := range idx {
		idx[i] = i
	}
	slices.SortFunc(idx, func(a, b int) int { return cmpValue(vals[a], vals[b]) })
	out := make([]K, len(keys))
	for i, j := range idx {
		out[i] = keys[j]
	}
	copy(keys, out)
	return true
}

func orderable(t reflect.Type) bool {
	switch t.Kind() {
	case reflect.Bool, reflect.Int, reflect.Int8, reflect.Int16, reflect.Int32, reflect.Int64,
		reflect.Uint, reflect.Uint8, reflect.Uint16, reflect.Uint32, reflect.Uint64, reflect.Uintptr,
		reflect.Float32, reflect.Float64, reflect.String:
		return true
	case reflect.Array:
		return orderable(t.Elem())
	case reflect.Struct:
		for i := 0; i < t.NumField(); i++ {
			if !orderable(t.Field(i).Type) {
				return false
			}
		}
		return true
	}
	return false
}

func cmpValue(a, b reflect.Value) int {
	switch a.Kind() {
	case reflect.Bool:
		x, y := 0, 0
		if a.Bool() {
			x = 1
		}
		if b.Bool() {
			y = 1
		}
		return cmp.Compare(x, y)
	case reflect.Int, reflect.Int8, reflect.Int16, reflect.Int32, reflect.Int64:
		return cmp.Compare(a.Int(), b.Int())
	case reflect.Uint, reflect.Uint8, reflect.Uint16, reflect.Uint32, reflect.Uint64, reflect.Uintptr:
		return cmp.Compare(a.Uint(), b.Uint())
	case reflect.Float32, reflect.Float64:
		return cmp.Compare(a.Float(), b.Float())
	case reflect.String:
		return cmp.Compare(a.String(), b.String())
	case reflect.Array:
		for i := 0; i < a.Len(); i++ {
			if c := cmpValue(a.Index(i), b.Index(i)); c != 0 {
				return c
			}
		}
	case reflect.Struct:
		for i := 0; i < a.NumField(); i++ {
			if c := cmpValue(a.Field(i), b.Field(i)); c != 0 {
				return c
			}
		}
	}
	return 0
}

// shuffleKeys permutes sorted keys with a PRNG that depends on the run's seed, the site and the number
// of times the site was reached, never on the scheduler's own stream (whose draws are the recorded
// schedule).
func shuffleKeys[K comparable](site uint32, keys []K) {
	s := cur
	if s == nil {
		return
	}
	s.mu.Lock()
	if s.mapVisits == nil {
		s.mapVisits = map[uint32]uint64{}
	}
	s.mapVisits[site]++
	n := s.mapVisits[site]
	seed := s.cfg.Seed
	s.mu.Unlock()
	r := NewSplitMix(Hash64(seed, uint64(site), n))
	for i := len(keys) - 1; i > 0; i-- {
		j := r.Intn(i + 1)
		keys[i], keys[j] = keys[j], keys[i]
	}
}

// Package simrandv2 replaces math/rand/v2 in instrumented code.
package simrandv2

import (
	"math/rand/v2"
	"sync"
)

type (
	Rand   = rand.Rand
	Source = rand.Source
	PCG    = rand.PCG
)

var (
	mu  sync.Mutex
	def = rand.New(rand.NewPCG(1, 2))
)

func Seed(seed uint64) {
	mu.Lock()
	def = rand.New(rand.NewPCG(seed, seed^0x9E3779B97F4A7C15))
	mu.Unlock()
}

func New(src Source) *Rand          { return rand.New(src) }
func NewPCG(a, b uint64) *PCG       { return rand.NewPCG(a, b) }
func Int64() int64                  { mu.Lock(); defer mu.Unlock(); return def.Int64() }
func Int64N(n int64) int64          { mu.Lock(); defer mu.Unlock(); return def.Int64N(n) }
func Int32() int32                  { mu.Lock(); defer mu.Unlock(); return def.Int32() }
func Int32N(n int32) int32          { mu.Lock(); defer mu.Unlock(); return def.Int32N(n) }
func Int() int                      { mu.Lock(); defer mu.Unlock(); return def.Int() }
func IntN(n int) int                { mu.Lock(); defer mu.Unlock(); return def.IntN(n) }
func Uint32() uint32                { mu.Lock(); defer mu.Unlock(); return def.Uint32() }
func Uint32N(n uint32) uint32       { mu.Lock(); defer mu.Unlock(); return def.Uint32N(n) }
func Uint64() uint64                { mu.Lock(); defer mu.Unlock(); return def.Uint64() }
func Uint64N(n uint64) uint64       { mu.Lock(); defer mu.Unlock(); return def.Uint64N(n) }
func Float64() float64              { mu.Lock(); defer mu.Unlock(); return def.Float64() }
func Float32() float32              { mu.Lock(); defer mu.Unlock(); return def.Float32() }
func Perm(n int) []int              { mu.Lock(); defer mu.Unlock(); return def.Perm(n) }
func Shuffle(n int, swap func(i, j int)) {
	mu.Lock()
	defer mu.Unlock()
	def.Shuffle(n, swap)
}

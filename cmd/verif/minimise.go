package main

import (
	"encoding/json"
	"sort"
	"time"
)

// minimise shrinks a failing case while a fresh-process run still fails with the same clause.
// It works on the JSON structure: fault-plan entries, script steps, clients, operations,
// documents, schedule and knobs.
func minimise(bin *build, prop string, caseJSON []byte, clause string) []byte {
	var c map[string]any
	if err := decodeJSON(caseJSON, &c); err != nil {
		return nil
	}
	deadline := time.Now().Add(5 * time.Minute)
	runs := 0
	fails := func(cand map[string]any) bool {
		if runs >= 250 || time.Now().After(deadline) {
			return false
		}
		runs++
		data, _ := json.Marshal(cand)
		r, err := replayCase(bin, prop, data)
		return err == nil && r.Outcome == "violation" && r.clause() == clause
	}
	clone := func(m map[string]any) map[string]any {
		data, _ := json.Marshal(m)
		var out map[string]any
		decodeJSON(data, &out)
		return out
	}
	// shrinkList tries to delete chunks of the list reachable through get/set.
	shrinkList := func(get func(map[string]any) []any, set func(map[string]any, []any), keepFirst int) {
		for chunk := len(get(c)) / 2; chunk >= 1; chunk /= 2 {
			for i := keepFirst; i+chunk <= len(get(c)); {
				cand := clone(c)
				l := get(cand)
				nl := append(append([]any{}, l[:i]...), l[i+chunk:]...)
				set(cand, nl)
				if fails(cand) {
					c = cand
				} else {
					i += chunk
				}
			}
		}
	}
	topList := func(key string) (func(map[string]any) []any, func(map[string]any, []any)) {
		return func(m map[string]any) []any {
				l, _ := m[key].([]any)
				return l
			}, func(m map[string]any, l []any) {
				m[key] = l
			}
	}

	// 1. fault plan entries
	g, s := topList("faults")
	shrinkList(g, s, 0)
	// 2. script steps / top-level operation lists
	for _, key := range []string{"steps", "ops", "battery", "clients", "cleaner"} {
		if _, ok := c[key].([]any); ok {
			g, s := topList(key)
			keep := 0
			if key == "steps" {
				keep = 1
			}
			shrinkList(g, s, keep)
		}
	}
	// 2b. operations of top-level clients (engines without a step script)
	if cls, ok := c["clients"].([]any); ok {
		for ci := range cls {
			if _, isList := cls[ci].([]any); !isList {
				continue
			}
			shrinkList(func(m map[string]any) []any {
				l, _ := m["clients"].([]any)
				if ci >= len(l) {
					return nil
				}
				x, _ := l[ci].([]any)
				return x
			}, func(m map[string]any, l []any) {
				if all, _ := m["clients"].([]any); ci < len(all) {
					all[ci] = l
				}
			}, 0)
		}
	}
	// 3. clients and their operations, documents inside bulks
	steps, _ := c["steps"].([]any)
	for si := range steps {
		step, _ := c["steps"].([]any)[si].(map[string]any)
		clients, _ := step["clients"].([]any)
		if clients == nil {
			continue
		}
		shrinkList(func(m map[string]any) []any {
			l, _ := m["steps"].([]any)[si].(map[string]any)["clients"].([]any)
			return l
		}, func(m map[string]any, l []any) {
			m["steps"].([]any)[si].(map[string]any)["clients"] = l
		}, 0)
		nclients := len(c["steps"].([]any)[si].(map[string]any)["clients"].([]any))
		for ci := 0; ci < nclients; ci++ {
			shrinkList(func(m map[string]any) []any {
				l, _ := m["steps"].([]any)[si].(map[string]any)["clients"].([]any)[ci].([]any)
				return l
			}, func(m map[string]any, l []any) {
				m["steps"].([]any)[si].(map[string]any)["clients"].([]any)[ci] = l
			}, 0)
			ops, _ := c["steps"].([]any)[si].(map[string]any)["clients"].([]any)[ci].([]any)
			for oi := range ops {
				op, _ := ops[oi].(map[string]any)
				if docs, ok := op["docs"].([]any); ok && len(docs) > 1 {
					shrinkList(func(m map[string]any) []any {
						l, _ := m["steps"].([]any)[si].(map[string]any)["clients"].([]any)[ci].([]any)[oi].(map[string]any)["docs"].([]any)
						return l
					}, func(m map[string]any, l []any) {
						m["steps"].([]any)[si].(map[string]any)["clients"].([]any)[ci].([]any)[oi].(map[string]any)["docs"] = l
					}, 0)
				}
			}
		}
	}
	// 4. schedule: all zeros (no pre-emption), else keep what was recorded
	if sched, ok := c["schedule"].([]any); ok && len(sched) > 0 {
		cand := clone(c)
		cand["schedule"] = []any{}
		if fails(cand) {
			c = cand
		} else {
			// truncate from the end
			for n := len(sched) / 2; n >= 1; n /= 2 {
				cand := clone(c)
				cur := cand["schedule"].([]any)
				if len(cur) <= n {
					continue
				}
				cand["schedule"] = cur[:len(cur)-n]
				if fails(cand) {
					c = cand
				}
			}
		}
	}
	// 5. knobs towards plain values
	if knobs, ok := c["knobs"].(map[string]any); ok {
		plain := map[string]any{"p_stmt": json.Number("0"), "step_cost_ns": json.Number("0"), "sync_latency_us": json.Number("0"),
			"index_workers": json.Number("1"), "fetch_workers": json.Number("1"), "reader_workers": json.Number("1"),
			"search_workers": json.Number("1"), "fractions_per_iteration": json.Number("1"), "skip_sort_docs": false, "keep_meta_file": false,
			"fsync_commits_journal": false, "cache_size": json.Number("268435456"), "zstd_level": json.Number("1")}
		keys := make([]string, 0, len(plain))
		for k := range plain {
			keys = append(keys, k)
		}
		sort.Strings(keys)
		for _, k := range keys {
			v := plain[k]
			if cur, ok := knobs[k]; ok && cur != v {
				cand := clone(c)
				cand["knobs"].(map[string]any)[k] = v
				if fails(cand) {
					c = cand
				}
			}
		}
	}
	out, _ := json.Marshal(c)
	return out
}

// verif is the driver of the deterministic-simulation checks: it instruments /repo's current
// working tree into a scratch overlay, builds the engine, fans seeds out to worker processes,
// confirms and minimises violations, writes evidence and sets the exit code.
//
//	verif check <property> [--tier quick|thorough] [--runs N] [--budget seconds]
//	verif replay <file>
//	verif selftest <property> [--seeds N]
//
// Exit status: 0 held on everything explored, 1 violation (a line "VIOLATION property=<id>
// replay=<path>" is printed), 2 infrastructure trouble (never a VIOLATION).
package main

import (
	"bufio"
	"bytes"
	"encoding/json"
	"errors"
	"fmt"
	"os"
	"os/exec"
	"path/filepath"
	"runtime"
	"sort"
	"strconv"
	"strings"
	"sync"
	"time"
)

const goBin = "/opt/veriftools/go1.26.8/bin"

// repoDir is the seq-db working tree the checks rebuild from: /repo, unless VERIF_REPO names a
// snapshot (background runs that must not see edits made to /repo while they work).
var repoDir = func() string {
	if d := os.Getenv("VERIF_REPO"); d != "" {
		return d
	}
	return "/repo"
}()

// verifDir is the directory the framework lives in: the parent of bin/ next to this executable
// (so that a snapshot of /verif works on its own files).
var verifDir = func() string {
	exe, err := os.Executable()
	if err == nil {
		if d := filepath.Dir(filepath.Dir(exe)); fileExists(filepath.Join(d, "harness", "go.mod")) {
			return d
		}
	}
	return "/verif"
}()

func fileExists(p string) bool {
	_, err := os.Stat(p)
	return err == nil
}

type propSpec struct {
	Engine   string
	Level    string // exploration | fault_enumeration
	Batch    int    // seeds per worker process (1 = one OS process per run)
	QuickSec int
	ThorSec  int
	Rule     string
	Assume   []string
	Real     []string
	Stub     []string
	Variants []string // build variants of block-size constants to run besides "default"
}

var storeReal = []string{"fracmanager (FracManager, loader, proxyFrac, Searcher, Fetcher, AsyncSearcher, CacheMaintainer)", "frac (+lids, token, processor)", "disk", "cache", "storeapi.GrpcV1", "bytespool", "seq", "parser", "node", "pattern", "zstd (cgo)"}
var storeStub = []string{"disk = simos (in-memory FS, ordered-journal durability model)", "clock/timers = synctest fake clock", "goroutine scheduling = verifsim seeded scheduler", "gRPC server/sockets not run (handlers called directly)", "logger = in-memory sink"}

var storeAssume = []string{"power-loss images are prefixes of the namespace journal plus per-file prefixes of unsynced writes with an optionally torn next write (ordered-journal file system); reads are not corrupted", "documents carry pre-tokenised metas as the proxy produces them; queries are the model's subset of seq-ql (exact, wildcard, numeric range, in, exists, and/or/not)"}

func storeProp(level string, quick, thorough int, rule string) propSpec {
	return propSpec{Engine: "storesim", Level: level, Batch: 1, QuickSec: quick, ThorSec: thorough, Rule: rule, Assume: storeAssume, Real: storeReal, Stub: storeStub}
}

// A lane is one way of running cases of a property: an engine binary built in a build variant, with
// an optional profile name handed to the worker. Entries of propSpec.Variants are either names of
// build variants (same engine) or "lane:<engine>:<profile>[:<every>]" - a second engine for the same
// property (e.g. the proxy against real stores next to the proxy against scripted stubs), used for
// every <every>-th chunk of seeds (default 4).
type lane struct {
	key     string // what is recorded as "variant" in results and replay files
	engine  string
	variant string
	profile string
	batch   int
	every   int
}

func parseLane(key string, spec propSpec) lane {
	if strings.HasPrefix(key, "lane:") {
		parts := strings.Split(key, ":")
		l := lane{key: key, engine: parts[1], variant: "default", batch: 1, every: 4}
		if len(parts) > 2 {
			l.profile = parts[2]
		}
		if len(parts) > 3 {
			if n, err := strconv.Atoi(parts[3]); err == nil && n > 0 {
				l.every = n
			}
		}
		return l
	}
	return lane{key: key, engine: spec.Engine, variant: key, batch: spec.Batch}
}

// laneSchedule returns the repeating sequence in which chunks of seeds are dealt to the lanes.
func laneSchedule(spec propSpec) []lane {
	var plain, extra []lane
	plain = append(plain, parseLane("default", spec))
	for _, v := range spec.Variants {
		if l := parseLane(v, spec); l.profile != "" {
			extra = append(extra, l)
		} else {
			plain = append(plain, l)
		}
	}
	if only := os.Getenv("VERIF_ONLY_LANE"); only != "" { // debugging: run a single lane
		for _, l := range append(append([]lane{}, plain...), extra...) {
			if strings.Contains(l.key, only) {
				return []lane{l}
			}
		}
	}
	if len(extra) == 0 {
		return plain
	}
	var out []lane
	period := 1
	for _, l := range extra {
		period *= l.every
	}
	period = max(period, len(plain)) * len(plain)
	pi := 0
	for i := 0; i < period; i++ {
		used := false
		for _, l := range extra {
			if i%l.every == l.every-1 {
				out = append(out, l)
				used = true
				break
			}
		}
		if !used {
			out = append(out, plain[pi%len(plain)])
			pi++
		}
	}
	return out
}

func withVariants(p propSpec, variants ...string) propSpec {
	p.Variants = variants
	return p
}

func clusterProp(quick, thorough int, rule string) propSpec {
	p := storeProp("exploration", quick, thorough, rule)
	p.Real = append([]string{"proxy/bulk.SeqDBClient", "proxy/search.Ingestor (+ docs iterators)", "network/circuitbreaker"}, storeReal...)
	p.Stub = append([]string{"transport = simnet (handlers called on a task of the target node, messages deep-copied, seeded latencies)"}, storeStub...)
	return p
}

func init() { // lanes: components of the second engines
	p := props["C19"]
	p.Real = append([]string{"second lane (every 3rd chunk): proxy/search.Ingestor asynchronous fan-out (StartAsyncSearch, FetchAsyncSearchResult), bulk.SeqDBClient, network/circuitbreaker over real stores"}, p.Real...)
	p.Stub = append([]string{"transport = simnet (second lane)"}, p.Stub...)
	props["C19"] = p
}

const ntRule = "; non-trivial = at least one fault fired or the seeded scheduler pre-empted a runnable task; distinct = distinct (interleaving hash, event-log digest)"

var props = map[string]propSpec{
	"C01": storeProp("fault_enumeration", 50, 900, "one case = seeded ingest history (1-4 rounds of concurrent bulks/searches/fetches) + planned crash point (k-th write/sync/any mutating disk op on .docs/.meta, power-loss image with lost/torn tail, or process exit) + restart + validation against the model after every round; a fifth of the cases are the recovery sub-profile: crash inside the write of a large bulk (long torn tail), restart, 1-4 one-document bulks, power loss with little or nothing of the page cache surviving"+ntRule),
	"C03": withVariants(storeProp("exploration", 60, 900, "one case = seeded corpus ingested into one fraction; the same battery (exact/wildcard/range/boolean searches both orders, limits, totals, histograms, aggregations, fetch lists with absent ids) is answered by the active fraction, the freshly sealed (preloaded) one, the one loaded from files after restart, after cache reset and during timer-driven cache eviction with readers overlapping; in a quarter of the cases once more around one transient read error (EIO on the index file, or on the documents file so that a fetch fails and the store goes on): a request may fail, an answer that is given must be complete, also afterwards; every answer must equal the model (hence each other); build variants of the on-disk block constants (default 64Ki/4Ki/16KiB, small 64/64/1KiB, tiny LIDBlockCap 8, 4 ids per block, 64 B blocks) so that postings, ID tables and token dictionaries straddle block boundaries with tens of documents; knob swarm over DocBlockSize, zstd level, SkipSortDocs, cache size 4KiB..256MiB"+ntRule), "small", "tiny"),
	"C05": withVariants(clusterProp(45, 600, "one case = 1-3 shards x 1-3 replicas of real stores behind the real bulk.SeqDBClient and search.Ingestor on the simulated transport (seeded per-call latencies reorder shard replies); bulks are routed by the client's shuffled shard choice, per-store FracSize is small so rotation/sealing happen at different moments on different nodes, timestamps arrive out of order so fraction ranges overlap, FractionsPerIteration differs per store, optional seal/restart of a store; searches through the proxy: both orders, limits, totals, histograms, paging with sizes 1..8 walked page by page, documents stream; compared with the model over the union; in 30% of the cases some bulks also reach a second shard (documents present on several shards): listed once, paging exact, total/histogram exact when the listing covers the whole result; aggregation limits as shipped in half of the cases; every fourth seed is a store-level sub-profile: one store under continuous size-based retention, overlapping fractions, searches in chunks of 1-2 fractions that take simulated time, complete listings alternating with limits 1-8, oracle = soundness + acknowledged documents of fractions sealed before the search and still served after it are listed unless the listing is full and ends before them"+"; build variant tiny of the on-disk block constants (LIDBlockCap 8, 4 ids per block, 64 B blocks) in half of the runs so that sealed fractions have many blocks"+ntRule), "tiny"),
	"C06": withVariants(clusterProp(45, 600, "same cluster as C05 with an aggregation/histogram-heavy battery: count/unique/sum/min/max/avg/quantile with and without group-by, histograms with intervals 1ms..60s, one aggregation in four as a time series with its own interval (7 ms..1 h, compared per group x bucket), final values computed by the proxy from the merged summaries; partial results of fractions are merged per store and shard replies are merged by the proxy in simulated arrival order; every bin compared with values computed directly from the matching documents (quantiles exactly, samples <= 8096); aggregation limits as shipped (per-source counting path) in half of the cases"+"; build variant tiny of the on-disk block constants (LIDBlockCap 8, 4 ids per block, 64 B blocks) in half of the runs so that sealed fractions have many blocks"+ntRule), "tiny"),
	"C07": withVariants(storeProp("exploration", 50, 900, "one case = 1-4 writer and 1-4 reader clients (search+immediate fetch of hits, fetch of absent/border ids) concurrent with the real maintenance loop (rotate->seal->release, retention in a third of the runs) and cache cleaner; seeded scheduler pre-empts at every lock/channel/wait and at statement level in the index-update code; per-request soundness checks inside readers, full model equality once writers are idle; in a quarter of the cases some reader searches are built to fail inside the fractions (sum over a non-numeric field; 2-3 search workers); at every quiescent point no search worker slot may be taken (a slot never given back = deadlock by exhaustion, reported at the first)"+"; build variant tiny of the on-disk block constants (LIDBlockCap 8, 4 ids per block, 64 B blocks) in half of the runs so that sealed fractions have many blocks"+ntRule), "tiny"),
	"C08": withVariants(storeProp("fault_enumeration", 50, 900, "one case = seeded corpus, then a seal (forced, size-triggered by the maintenance loop, or on graceful stop) with one planned fault: crash/process-exit at the k-th mutating disk operation of the seal (64 consecutive seeds walk k=1..64 over the same corpus), or the k-th write/sync/rename/create on the index/sorted-docs output failing with EIO/ENOSPC/short write; validation right after the seal (if the process survived) and after restart"+"; build variant tiny of the on-disk block constants (LIDBlockCap 8, 4 ids per block, 64 B blocks) in half of the runs so that sealed fractions have many blocks"+ntRule), "tiny"),
	"C14": withVariants(storeProp("exploration", 45, 600, "one case = documents timestamped -72h..+3h relative to the simulated clock (around the 10-minute rule, the 24h clip and minute-bucket borders), clock jumps of hours between fractions, seal, restart with present/deleted/garbled/stale/moved (valid, paths of another location) .frac-cache; battery of range queries whose ends fall on/around document timestamps and bucket borders, compared with the model that examines every document; a quarter of the documents repeat the previous timestamp (runs of equal milliseconds across ID-block and bucket borders), 15% of the documents of later fractions tie with a border document of an earlier fraction"+"; build variant tiny of the on-disk block constants (LIDBlockCap 8, 4 ids per block, 64 B blocks) in half of the runs so that sealed fractions have many blocks"+ntRule), "tiny"),
	"C15": storeProp("fault_enumeration", 50, 900, "one case = 2-5 rounds of sequential bulks with small FracSize/TotalSize so that create->rotate->seal->retention->.frac-cache cycle, a planned crash at the k-th create/rename/remove/dirsync/any mutating op per round, power loss/kill/stop, optional .frac-cache tampering (deleted, garbled, truncated, foreign entry, valid with the paths of another location); after every restart: store comes up, every known fraction is wholly served or wholly gone, served ones are the newest, fractions with .del files in the image never serve again"+ntRule),
	"C17": withVariants(storeProp("exploration", 45, 600, "one case = history of bulks with re-deliveries (whole-bulk repeats, partial overlaps with new documents, documents of several earlier bulks, the same bulk by two clients concurrently), validation on the active fraction, after seal and after restart/replay; set-semantics model; totals/histograms/aggregations/DocsTotal strict while all copies sit in one fraction; in 35% of the cases documents carry nested elements (several metas under one ID, row semantics in the model: listing de-duplicated, counts compared where every matching document matches through exactly one row)"+"; build variant tiny of the on-disk block constants (LIDBlockCap 8, 4 ids per block, 64 B blocks) in half of the runs so that sealed fractions have many blocks"+ntRule), "tiny"),
	"C09": {Engine: "proxysim", Level: "fault_enumeration", Batch: 300, QuickSec: 30, ThorSec: 600,
		Rule: "one case = topology 1-3 shards x 1-3 replicas hot (+ optional long-term tier), real bulk.SeqDBClient with the real circuit breaker (timeouts 50ms..1s, thresholds, sleep window on the fake clock) over scripted stub stores; per replica and call one of: ok, error, hang until the deadline, success after the deadline, reply lost, answer right at the deadline; 1-2 concurrent clients (a fifth of the cases without request context: 2-3 clients hand documents to the real bulk.Ingestor with its pooled compressor, which calls the client; a payload is then identified by the documents inside it); oracle over the stubs' call log: acknowledged => some hot shard (and some long-term shard) has every replica with a successful call carrying exactly this payload, at most BulkMaxTries deliveries per replica, progress once faults stop; non-trivial = a non-ok outcome fired or the scheduler pre-empted; distinct = distinct (interleaving hash, fired outcome counts)",
		Assume: []string{"stub stores answer as scripted; the payload is opaque bytes"},
		Real:   []string{"proxy/bulk.SeqDBClient (storeDocs, sendBulkToStores, shard.Bulk, write status)", "proxy/bulk.Ingestor.ProcessDocuments with frac.DocsMetasCompressor (a fifth of the context-free cases)", "network/circuitbreaker + cep21/circuit (real)", "second lane (every 4th chunk): the same client against real stores (fracmanager, frac, storeapi.GrpcV1) that crash in the middle of their writes, lose replies and are partitioned; afterwards every acknowledged bulk must sit, byte for byte, on every replica of some hot shard (and some long-term shard)"}, Stub: []string{"stores = scripted StoreApiClient stubs (first lane)", "transport = simnet (second lane)", "clock = synctest fake clock", "scheduling = verifsim"},
		Variants: []string{"lane:storesim:cluster-c09:4"}},
	"C10": {Engine: "proxysim", Level: "exploration", Batch: 300, QuickSec: 30, ThorSec: 600,
		Rule: "one case = an ES bulk body from a grammar (action/document lines, valid object documents with escapes/unicode/nesting, non-objects, invalid JSON, over-size lines, empty lines, CRLF, unknown actions, missing final newline, body cut at byte k, read error at byte k, gzip) handed to the real BulkHandler.ServeHTTP -> real bulk.Ingestor (processor, indexer, tokenizers) -> capturing StorageClient, at a simulated clock; the bulk configuration is what proxyapi.NewIngestor runs with (its defaulting applied), past/future drift from {0, 0.5-1 s, 1 min, 1 day}; document times at -drift-1s, -drift, -drift+1s, +future-1s, +future, +future+1s and far, 30% of the timed documents with a second time field of another name, format and instant; the same body is delivered four times with different chunkings of the reader (whole, byte by byte, two seeded chunkings; in 15% of the cases 300 or 1500 simulated ms pass between chunks; 40% of the concurrent phases send gzip bodies after a request that announces gzip and is not; after every request the ingestor must hold all its rate-limit tickets); oracle = independent framing parser + time rule; the outcome must be identical for every chunking; in 40% of the cases all deliveries go through one long-lived ingestor with the simulated clock advancing 0 ms .. 2 x drift between them (pooled per-request state meets requests of different times); in 30% a concurrent phase follows: 2-4 requests (documents marked with their request number) at once on one handler, optionally after a request whose store call failed, the body reader yielding at every Read under the seeded scheduler: every request must get the outcome of its own body and every storage call must carry the documents of exactly one request; non-trivial = always (every case exercises the stream); distinct = distinct (status counts, interleaving hash)",
		Assume: []string{"document lines stay clear of the size limit itself (50 bytes below / 10 above): the boundary behaviour of the limit depends on the line terminator and is not part of the property", "valid/invalid JSON judged by encoding/json on clear-cut cases"},
		Real:   []string{"proxyapi.BulkHandler (esBulkDocReader, gzip, response)", "proxy/bulk.Ingestor, processor, indexer", "tokenizer", "frac.DocsMetasCompressor"}, Stub: []string{"storage = capturing StorageClient that decodes the payload", "request body = seeded chunk reader", "clock = synctest fake clock"}},
	"C16": {Engine: "proxysim", Level: "fault_enumeration", Batch: 300, QuickSec: 45, ThorSec: 600,
		Rule: "one case = topology 1-3 shards x 1-3 replicas (+ optional long-term tier), real search.Ingestor (searchStores/searchShard, MergeQPRs, pagination, FetchDocsStream, merged docs iterators) over scripted stub stores answering from their slice of a model corpus; per call: ok, error, wants-old-data, too-many-fractions, with seeded latencies that decide the arrival order of shard replies; per fetch stream: ok, error, break after k, stall of 90 simulated seconds and then break, missing document, 1-3 unrequested or duplicated entries, swapped entries; 1-4 requests per run (offset/size/order/fetch; 15% through proxyapi Export with a deadline of one minute; another 15% through the proxyapi Search, ComplexSearch or GetHistogram handlers with their own deadline of 10-70 simulated ms or a minute; in 20% of the cases all requests of the run are in flight at once on the one ingestor); oracle: error, or ids = correct merged top over exactly the shards that had an answering replica, flagged partial iff some shard had none (a shard counts as having none only if every replica scripted to answer whenever asked has been asked), long-term tier consulted iff a hot store wants old data, i-th document is the document of the i-th id, or empty only if some fetch call that was asked for it did not deliver it (failed call, broken stream before the entry, empty or reordered entry); a panic inside the proxy is treated as the error response its recovery interceptor produces; non-trivial = a non-ok outcome fired or the scheduler pre-empted; distinct = distinct (interleaving hash, fired outcome counts)",
		Assume: []string{"stub stores answer searches correctly for their own slice when scripted ok"},
		Real:   []string{"proxy/search.Ingestor", "proxy/search docs iterators (grpc stream, merged, position based)", "seq.MergeQPRs", "second lane (every 3rd chunk): the same proxy code plus bulk.SeqDBClient against real stores (fracmanager, frac, storeapi.GrpcV1) with a hot tier under size-based retention and a long-term tier"}, Stub: []string{"stores = scripted StoreApiClient stubs (first lane)", "transport = simnet (second lane)", "clock = synctest fake clock", "scheduling = verifsim"},
		Variants: []string{"lane:storesim:cluster-c16:3"}},
	"C18": {Engine: "cachesim", Level: "exploration", Batch: 500, QuickSec: 30, ThorSec: 600,
		Rule: "one case = 2-6 caller tasks issuing Get/GetWithError (loader parks at scheduling points, returns a size, fails or panics), Release and NewCache over 1-4+ caches sharing one Cleaner, plus one cleaner task running Rotate/Cleanup/CleanEmptyGenerations+ReleaseBuckets; seeded scheduler pre-empts at every lock/WaitGroup operation and at statement level inside cache.go/cleaner.go; invariants per call, accounting/bucket/limit invariants at quiescence, porcupine linearizability of the lookup history against a register-with-eviction model; build variant tiny (recreateThreshold 4, excessiveSizeFactor 2 instead of 200 and 10) in half of the runs so that the map re-creation of Cleanup is reached with a handful of keys; non-trivial = the scheduler pre-empted a runnable task; distinct = distinct interleaving hash",
		Assume: []string{"a cache is released only when no lookup on it is in flight (seq-db releases under the fraction's write lock, lookups hold its read lock)", "the cleaner methods are called from one task, as CacheMaintainer does"},
		Real:   []string{"cache.Cache", "cache.Cleaner"}, Stub: []string{"loaders are harness code", "goroutine scheduling = verifsim seeded scheduler"},
		Variants: []string{"tiny"}},
	"C19": withVariants(storeProp("fault_enumeration", 45, 600, "one case = 2-5 fractions (active+sealed), 1-3 asynchronous searches (query+histogram+aggregations), planned crash at the k-th rename of *.qpr / *.info, write to *.tmp or any mutating op, power loss/kill/stop, restart; the request must be known, finish within one simulated hour and equal the synchronous search and the model; every sixth seed runs the sub-profile c19-retention instead (size limit, one search worker, 2-4 queued searches, step cost, a writer that goes on so that listed fractions are retired before the search reaches them: the request stays known, ends, lists only submitted matching documents once each in order, the process lives); request ids are random version-4 UUIDs; in 30% of the cases group-by values look like the key syntax of persisted partial results (\"200|/api\", \"12|\", \"0|alpha\"); in 40% ingestion goes on right after the searches were started (rotation, bulks into a fraction created after the start): a listed document submitted after the start must live in a fraction that existed at the start; second lane (every 3rd chunk): the proxy's StartAsyncSearch/FetchAsyncSearchResult fan-out over 1-3 shards x 1-2 replicas of real stores on simnet, stores killed / losing power / partitioned and restarted while the searches run and are polled: a response that says done without error must equal the model, and once every store is back the search must become done within one simulated hour; build variant tiny of the on-disk block constants in a third of the runs (token tables and every other index structure span many blocks)"+ntRule), "tiny", "lane:storesim:cluster-c19:3"),
}

type knownEntry struct {
	Status       string `json:"status"` // known | fixed
	Property     string `json:"property"`
	Clause       string `json:"clause,omitempty"`
	Precondition string `json:"precondition,omitempty"` // prefix of a tag in result.known
	DetailHas    string `json:"detail_has,omitempty"`   // substring the violation detail must contain
	Commit       string `json:"commit,omitempty"`
	What         string `json:"what"`
}

type result struct {
	Property   string           `json:"property"`
	Seed       uint64           `json:"seed"`
	Outcome    string           `json:"outcome"`
	Violations []map[string]any `json:"violations,omitempty"`
	Known      []string         `json:"known,omitempty"`
	Infra      string           `json:"infra,omitempty"`
	Steps      int              `json:"steps"`
	Switches   int              `json:"switches"`
	SimMs      int64            `json:"sim_ms"`
	Hash       string           `json:"hash"`
	Ops        int              `json:"ops"`
	Planned    map[string]int   `json:"planned,omitempty"`
	Fired      map[string]int   `json:"fired,omitempty"`
	Probes     map[string]int   `json:"probes,omitempty"`
	States     []string         `json:"states,omitempty"`
	DiskStats  map[string]int   `json:"disk,omitempty"`
	Trace      []string         `json:"trace,omitempty"`
	NonTrivial bool             `json:"nontrivial"`
	Digest     string           `json:"digest"`
	// batch engines
	Runs     int      `json:"runs,omitempty"`
	NonTriv  int      `json:"nontriv_runs,omitempty"`
	Hashes   []string `json:"hashes,omitempty"`
	Sample   any      `json:"sample,omitempty"`
	caseJSON []byte
	variant  string
}

func (r *result) clause() string {
	if len(r.Violations) == 0 {
		return ""
	}
	c, _ := r.Violations[0]["clause"].(string)
	return c
}

func (r *result) detail() string {
	if len(r.Violations) == 0 {
		return ""
	}
	c, _ := r.Violations[0]["detail"].(string)
	return c
}

func goEnv() []string {
	env := os.Environ()
	env = append(env, "GOFLAGS=-mod=mod", "GOPROXY=off", "GOSUMDB=off", "GOTOOLCHAIN=local", "PATH="+goBin+":"+os.Getenv("PATH"))
	return env
}

func fatal2(format string, a ...any) {
	fmt.Fprintf(os.Stderr, "verif: "+format+"\n", a...)
	os.Exit(2)
}

func main() {
	if len(os.Args) < 2 {
		fatal2("usage: verif check|replay|selftest ...")
	}
	switch os.Args[1] {
	case "check":
		os.Exit(cmdCheck(os.Args[2:]))
	case "replay":
		os.Exit(cmdReplay(os.Args[2:]))
	case "selftest":
		os.Exit(cmdSelftest(os.Args[2:]))
	case "trace":
		os.Exit(cmdTrace(os.Args[2:]))
	default:
		fatal2("unknown command %s", os.Args[1])
	}
}

// ---- build ---------------------------------------------------------------------------------------

type build struct {
	scratch string
	bin     string
	report  map[string]any
	profile string // worker profile of the lane this build serves ("" for plain lanes)
}

func (b *build) cleanup() {
	if b.scratch != "" && os.Getenv("VERIF_KEEP_SCRATCH") == "" {
		os.RemoveAll(b.scratch)
	}
}

func buildEngine(engine, variant string) (*build, error) {
	base := os.Getenv("VERIF_SCRATCH")
	if base == "" {
		base = os.TempDir()
	}
	scratch, err := os.MkdirTemp(base, "verif-")
	if err != nil {
		return nil, err
	}
	b := &build{scratch: scratch}
	ins := exec.Command(filepath.Join(verifDir, "bin", "instrument"), "-repo", repoDir, "-out", scratch, "-sim", filepath.Join(verifDir, "sim"), "-variant", variant)
	ins.Env = goEnv()
	if out, err := ins.CombinedOutput(); err != nil {
		b.cleanup()
		return nil, fmt.Errorf("instrument failed: %v\n%s", err, out)
	}
	if data, err := os.ReadFile(filepath.Join(scratch, "instrument_report.json")); err == nil {
		json.Unmarshal(data, &b.report)
	}
	b.bin = filepath.Join(scratch, engine+".test")
	// go.sum of the harness follows the repository's
	if sum, err := os.ReadFile(filepath.Join(repoDir, "go.sum")); err == nil {
		extra, _ := os.ReadFile(filepath.Join(verifDir, "harness", "go.sum.extra"))
		os.WriteFile(filepath.Join(verifDir, "harness", "go.sum"), append(sum, extra...), 0o644)
	}
	args := []string{"test", "-c", "-overlay", filepath.Join(scratch, "overlay.json"), "-vet=off", "-o", b.bin}
	if repoDir != "/repo" {
		// the harness module replaces seq-db by /repo; a snapshot gets its own go.mod/go.sum
		mod, err := os.ReadFile(filepath.Join(verifDir, "harness", "go.mod"))
		if err != nil {
			b.cleanup()
			return nil, err
		}
		mod = bytes.Replace(mod, []byte("=> /repo"), []byte("=> "+repoDir), 1)
		sum, _ := os.ReadFile(filepath.Join(verifDir, "harness", "go.sum"))
		os.WriteFile(filepath.Join(scratch, "go.mod"), mod, 0o644)
		os.WriteFile(filepath.Join(scratch, "go.sum"), sum, 0o644)
		args = append(args, "-modfile="+filepath.Join(scratch, "go.mod"))
	}
	cmd := exec.Command(filepath.Join(goBin, "go"), append(args, "./"+engine)...)
	cmd.Dir = filepath.Join(verifDir, "harness")
	cmd.Env = goEnv()
	if out, err := cmd.CombinedOutput(); err != nil {
		b.cleanup()
		return nil, fmt.Errorf("building engine %s failed: %v\n%s", engine, err, out)
	}
	return b, nil
}

// ---- running workers -----------------------------------------------------------------------------

func runWorker(bin string, job map[string]any, timeout time.Duration, extraEnv ...string) ([]*result, error) {
	jb, _ := json.Marshal(job)
	env := append(os.Environ(), extraEnv...)
	var jobFile string
	if len(jb) > 100000 {
		f, err := os.CreateTemp(filepath.Dir(bin), "job-*.json")
		if err != nil {
			return nil, err
		}
		f.Write(jb)
		f.Close()
		jobFile = f.Name()
		defer os.Remove(jobFile)
		env = append(env, "VERIF_JOB="+jobFile)
	} else {
		env = append(env, "VERIF_JOB="+string(jb))
	}
	cmd := exec.Command(bin, "-test.run", "^TestWorker$", "-test.timeout", "0")
	cmd.Env = env
	var stdout, stderr bytes.Buffer
	cmd.Stdout, cmd.Stderr = &stdout, &stderr
	if err := cmd.Start(); err != nil {
		return nil, err
	}
	done := make(chan error, 1)
	go func() { done <- cmd.Wait() }()
	var werr error
	select {
	case werr = <-done:
	case <-time.After(timeout):
		cmd.Process.Kill()
		<-done
		return nil, fmt.Errorf("worker silent for %s (watchdog)", timeout)
	}
	var out []*result
	sc := bufio.NewScanner(&stdout)
	sc.Buffer(make([]byte, 1<<20), 1<<28)
	for sc.Scan() {
		line := sc.Text()
		switch {
		case strings.HasPrefix(line, "RESULT "):
			var r result
			if err := json.Unmarshal([]byte(line[7:]), &r); err != nil {
				return nil, fmt.Errorf("bad RESULT line: %v", err)
			}
			out = append(out, &r)
		case strings.HasPrefix(line, "CASE "):
			if len(out) > 0 {
				out[len(out)-1].caseJSON = []byte(line[5:])
			}
		}
	}
	if len(out) == 0 {
		tail := stderr.String() + stdout.String()
		if len(tail) > 3000 {
			tail = tail[len(tail)-3000:]
		}
		return nil, fmt.Errorf("worker produced no result (exit: %v)\n%s", werr, tail)
	}
	return out, nil
}

// ---- check ---------------------------------------------------------------------------------------

type flags struct {
	tier   string
	runs   int
	budget int
	seed   uint64
	seeds  int
}

func parseFlags(args []string) (string, flags) {
	f := flags{tier: os.Getenv("VERIF_TIER"), seed: 1}
	if f.tier == "" {
		f.tier = "quick"
	}
	if s := os.Getenv("VERIF_SEED"); s != "" {
		if v, err := strconv.ParseUint(s, 10, 64); err == nil {
			f.seed = v
		}
	}
	var pos string
	for i := 0; i < len(args); i++ {
		switch args[i] {
		case "--tier":
			i++
			f.tier = args[i]
		case "--runs":
			i++
			f.runs, _ = strconv.Atoi(args[i])
		case "--budget":
			i++
			f.budget, _ = strconv.Atoi(args[i])
		case "--seeds":
			i++
			f.seeds, _ = strconv.Atoi(args[i])
		default:
			pos = args[i]
		}
	}
	return pos, f
}

func loadKnown() []knownEntry {
	var kf struct {
		Entries []knownEntry `json:"entries"`
	}
	data, err := os.ReadFile(filepath.Join(verifDir, "known_findings.json"))
	if err != nil {
		return nil
	}
	if err := json.Unmarshal(data, &kf); err != nil {
		fatal2("known_findings.json: %v", err)
	}
	return kf.Entries
}

// matchKnownV matches ONE violation of a run against the known findings.
func matchKnownV(known []knownEntry, prop string, v map[string]any, tags []string) *knownEntry {
	clause, _ := v["clause"].(string)
	detail, _ := v["detail"].(string)
	for i := range known {
		k := &known[i]
		if k.Status != "known" || k.Property != prop || k.Clause != clause {
			continue
		}
		if k.DetailHas != "" && !strings.Contains(detail, k.DetailHas) {
			continue
		}
		if k.Precondition != "" {
			ok := false
			for _, t := range tags {
				if strings.HasPrefix(t, k.Precondition) {
					ok = true
				}
			}
			if !ok {
				continue
			}
		}
		return k
	}
	return nil
}

var knownOnce sync.Once
var knownAll []knownEntry

// normalise moves the first violation of a run that is NOT a known finding to the front, so that
// clause()/detail() speak about it. A run counts as "known findings only" if every one of its
// violations matches an entry. It returns the entries the run hit and whether something unknown remains.
func normalise(prop string, r *result) (hit []*knownEntry, unknown bool) {
	knownOnce.Do(func() { knownAll = loadKnown() })
	first := -1
	for i, v := range r.Violations {
		if k := matchKnownV(knownAll, prop, v, r.Known); k != nil {
			hit = append(hit, k)
		} else if first < 0 {
			first = i
		}
	}
	if first > 0 {
		r.Violations[0], r.Violations[first] = r.Violations[first], r.Violations[0]
	}
	return hit, first >= 0
}

func seedFor(base uint64, i int) uint64 {
	return base*1000003 + uint64(i)
}

func cmdCheck(args []string) int {
	prop, f := parseFlags(args)
	spec, ok := props[prop]
	if !ok {
		fatal2("no check for property %q", prop)
	}
	start := time.Now()
	sched := laneSchedule(spec)
	builds := map[string]*build{}
	for _, l := range sched {
		if builds[l.key] != nil {
			continue
		}
		bv, err := buildEngine(l.engine, l.variant)
		if err != nil {
			fatal2("%v", err)
		}
		defer bv.cleanup()
		bv.profile = l.profile
		builds[l.key] = bv
	}
	b := builds[sched[0].key]
	budget := time.Duration(spec.QuickSec) * time.Second
	if f.tier == "thorough" {
		budget = time.Duration(spec.ThorSec) * time.Second
	}
	if f.budget > 0 {
		budget = time.Duration(f.budget) * time.Second
	}
	maxRuns := f.runs
	if maxRuns == 0 {
		maxRuns = 1 << 30
	}
	// fan out
	workers := numWorkers()
	var mu sync.Mutex
	var all []*result
	var infra []string
	next := 0
	deadline := time.Now().Add(budget)
	var wg sync.WaitGroup
	for w := 0; w < workers; w++ {
		wg.Add(1)
		go func() {
			defer wg.Done()
			for {
				mu.Lock()
				if next >= maxRuns || time.Now().After(deadline) || len(infra) > 3 {
					mu.Unlock()
					return
				}
				i := next
				next += spec.Batch
				mu.Unlock()
				// chunks of seeds are dealt to the lanes (build variants, second engines) in a fixed rotation
				ln := sched[(i/spec.Batch)%len(sched)]
				variant := ln.key
				job := map[string]any{"mode": "gen", "property": prop, "seed": seedFor(f.seed, i), "thorough": f.tier == "thorough", "count": ln.batch, "profile": ln.profile}
				rs, err := runWorker(builds[variant].bin, job, 180*time.Second)
				mu.Lock()
				if err != nil {
					infra = append(infra, fmt.Sprintf("seed %d: %v", seedFor(f.seed, i), err))
				} else {
					for _, r := range rs {
						r.variant = variant
					}
					all = append(all, rs...)
				}
				mu.Unlock()
			}
		}()
	}
	wg.Wait()
	runWall := time.Since(start)

	// triage
	var viol, inconclusive []*result
	knownHit := map[string]int{}
	for _, r := range all {
		switch r.Outcome {
		case "violation":
			hit, unknown := normalise(prop, r)
			for _, k := range hit {
				knownHit[k.What]++
			}
			if !unknown {
				continue
			}
			viol = append(viol, r)
		case "infra":
			infra = append(infra, fmt.Sprintf("seed %d: %s", r.Seed, r.Infra))
		case "inconclusive":
			inconclusive = append(inconclusive, r)
		}
	}
	sort.Slice(viol, func(i, j int) bool { return viol[i].Seed < viol[j].Seed })

	// confirm + minimise (first few)
	var reported []string
	for i, v := range viol {
		if i >= 3 {
			break
		}
		path := reportViolation(builds[v.variant], prop, v)
		reported = append(reported, path)
	}

	ev := writeEvidence(prop, spec, f, all, viol, inconclusive, infra, knownHit, b, runWall, reported)
	for what, n := range knownHit {
		fmt.Printf("KNOWN-FINDING: property=%s %s (hit in %d runs)\n", prop, what, n)
	}
	fmt.Printf("%s %s: %d runs, %d non-trivial distinct, %d violations, %d inconclusive, %d infra, %.1fs\n", prop, f.tier, ev.runs, ev.distinct, len(viol), len(inconclusive), len(infra), time.Since(start).Seconds())
	if len(viol) > 0 {
		for i, v := range viol {
			if i < len(reported) {
				fmt.Printf("VIOLATION property=%s replay=%s\n", prop, reported[i])
				fmt.Printf("  seed=%d clause=%s: %s\n", v.Seed, v.clause(), firstLine(v.detail()))
			}
		}
		return 1
	}
	if len(infra) > 0 && ev.runs == 0 {
		for _, s := range infra {
			fmt.Fprintln(os.Stderr, "infra:", s)
		}
		return 2
	}
	if len(infra) > 0 {
		for _, s := range infra {
			fmt.Fprintln(os.Stderr, "infra (ignored, runs completed otherwise):", firstLine(s))
		}
	}
	return 0
}

func firstLine(s string) string {
	if i := strings.IndexByte(s, '\n'); i >= 0 {
		s = s[:i]
	}
	if len(s) > 300 {
		s = s[:300]
	}
	return s
}

// reportViolation confirms the violation by replay in fresh processes, minimises it and writes the
// replay files. Returns the path to report.
func reportViolation(b *build, prop string, v *result) string {
	dir := filepath.Join(verifDir, "replays", prop)
	os.MkdirAll(dir, 0o755)
	orig := filepath.Join(dir, fmt.Sprintf("%d.json", v.Seed))
	if v.caseJSON == nil {
		// batch engines emit the case inside the result sample
		v.caseJSON, _ = json.Marshal(v.Sample)
	}
	file := map[string]any{"property": prop, "seed": v.Seed, "variant": v.variant, "expect": map[string]any{"clause": v.clause(), "detail": v.detail()}}
	var c any
	decodeJSON(v.caseJSON, &c)
	file["case"] = c
	stable := 0
	for i := 0; i < 3; i++ {
		r, err := replayCase(b, prop, v.caseJSON)
		if err == nil && r.Outcome == "violation" && r.clause() == v.clause() {
			stable++
		}
	}
	file["replay_unstable"] = stable < 3
	writeJSON(orig, file)
	if stable < 3 {
		return orig
	}
	min := minimise(b, prop, v.caseJSON, v.clause())
	if min == nil {
		return orig
	}
	var mc any
	decodeJSON(min, &mc)
	r, err := replayCase(b, prop, min)
	if err != nil || r.Outcome != "violation" {
		return orig
	}
	minPath := filepath.Join(dir, fmt.Sprintf("%d.min.json", v.Seed))
	writeJSON(minPath, map[string]any{"property": prop, "seed": v.Seed, "variant": v.variant, "case": mc, "expect": map[string]any{"clause": r.clause(), "detail": r.detail()}, "trace": r.Trace})
	return minPath
}

// decodeJSON keeps numbers as literals: seeds and ids are 64-bit and must not pass through float64.
func decodeJSON(data []byte, v any) error {
	d := json.NewDecoder(bytes.NewReader(data))
	d.UseNumber()
	return d.Decode(v)
}

func writeJSON(path string, v any) {
	data, _ := json.MarshalIndent(v, "", " ")
	os.WriteFile(path, data, 0o644)
}

func replayCase(b *build, prop string, caseJSON []byte) (*result, error) {
	var c any
	if err := decodeJSON(caseJSON, &c); err != nil {
		return nil, err
	}
	rs, err := runWorker(b.bin, map[string]any{"mode": "replay", "property": prop, "case": c, "profile": b.profile}, 180*time.Second)
	if err != nil {
		return nil, err
	}
	if rs[0].Outcome == "violation" {
		if _, unknown := normalise(prop, rs[0]); !unknown {
			rs[0].Outcome = "known" // nothing but known findings: not a violation to report, minimise against or replay as one
		}
	}
	return rs[0], nil
}

// ---- evidence ------------------------------------------------------------------------------------

type evSummary struct {
	runs, distinct int
}

func writeEvidence(prop string, spec propSpec, f flags, all, viol, inconclusive []*result, infra []string, knownHit map[string]int, b *build, wall time.Duration, reported []string) evSummary {
	runs, simMs, steps := 0, int64(0), 0
	distinct := map[string]bool{}
	sched := map[string]bool{}
	states := map[string]bool{}
	planned, fired, probes, disk := map[string]int{}, map[string]int{}, map[string]int{}, map[string]int{}
	var samples []any
	perVariant := map[string]int{}
	for _, r := range all {
		n := 1
		if r.Runs > 0 {
			n = r.Runs
		}
		perVariant[r.variant] += n
		runs += n
		simMs += r.SimMs
		steps += r.Steps
		if r.Runs > 0 {
			for _, h := range r.Hashes {
				distinct[h] = true
				sched[h] = true
			}
		} else {
			sched[r.Hash] = true
			if r.NonTrivial {
				distinct[r.Hash+"/"+r.Digest] = true
			}
		}
		for _, s := range r.States {
			states[s] = true
		}
		for k, v := range r.Planned {
			planned[k] += v
		}
		for k, v := range r.Fired {
			fired[k] += v
		}
		for k, v := range r.Probes {
			probes[k] += v
		}
		for k, v := range r.DiskStats {
			disk[k] += v
		}
	}
	for _, r := range all {
		if len(samples) >= 3 {
			break
		}
		if r.Sample != nil {
			samples = append(samples, r.Sample)
		} else if r.NonTrivial && len(r.Trace) > 0 {
			tr := r.Trace
			if len(tr) > 40 {
				tr = tr[:40]
			}
			samples = append(samples, map[string]any{"seed": r.Seed, "outcome": r.Outcome, "faults_fired": r.Fired, "steps": r.Steps, "pre_emptions": r.Switches, "trace": tr})
		}
	}
	if len(samples) == 0 {
		for _, r := range all {
			samples = append(samples, map[string]any{"seed": r.Seed, "outcome": r.Outcome, "trace": r.Trace})
			break
		}
	}
	faults := map[string]any{}
	keys := map[string]bool{}
	for k := range planned {
		keys[k] = true
	}
	for k := range fired {
		keys[k] = true
	}
	for k := range keys {
		faults[k] = map[string]int{"planned": planned[k], "fired": fired[k]}
	}
	stateList := make([]string, 0, len(states))
	for s := range states {
		stateList = append(stateList, s)
	}
	sort.Strings(stateList)
	var inc []string
	for i, r := range inconclusive {
		if i < 5 {
			inc = append(inc, fmt.Sprintf("seed %d: %s", r.Seed, firstLine(r.Infra)))
			// keep the case for inspection (an inconclusive run is never reported as a violation)
			if r.caseJSON != nil {
				dir := filepath.Join(verifDir, "replays", prop)
				os.MkdirAll(dir, 0o755)
				var c any
				decodeJSON(r.caseJSON, &c)
				writeJSON(filepath.Join(dir, fmt.Sprintf("inconclusive-%d.json", r.Seed)), map[string]any{"property": prop, "seed": r.Seed, "variant": r.variant, "case": c, "inconclusive": r.Infra})
			}
		}
	}
	cov := map[string]any{
		"evaluations":         runs,
		"distinct_nontrivial": len(distinct),
		"rule":                spec.Rule,
		"samples":             samples,
		"runs_per_hour":       int(float64(runs) / wall.Hours()),
		"sim_time_s":          simMs / 1000,
		"steps":               steps,
		"faults":              faults,
		"distinct_schedules":  len(sched),
		"distinct_states":     len(states),
		"abstract_states":     stateList,
		"probes":              probes,
		"disk_ops":            disk,
		"components":          map[string]any{"real": spec.Real, "stub": spec.Stub},
		"known_findings_hit":  knownHit,
		"inconclusive":        len(inconclusive),
		"inconclusive_sample": inc,
		"infra_errors":        len(infra),
		"instrumentation":     b.report,
		"replays":             reported,
		"first_seed":          seedFor(f.seed, 0),
		"runs_per_build_variant": perVariant,
	}
	ev := map[string]any{
		"property_id": prop,
		"tier":        f.tier,
		"seed":        f.seed,
		"level":       spec.Level,
		"coverage":    cov,
		"assumptions": spec.Assume,
		"wall_s":      wall.Seconds(),
		"violations":  len(viol),
	}
	os.MkdirAll(filepath.Join(verifDir, "evidence"), 0o755)
	writeJSON(filepath.Join(verifDir, "evidence", prop+".json"), ev)
	return evSummary{runs: runs, distinct: len(distinct)}
}

// ---- replay --------------------------------------------------------------------------------------

func cmdReplay(args []string) int {
	if len(args) < 1 {
		fatal2("usage: verif replay <file>")
	}
	data, err := os.ReadFile(args[0])
	if err != nil {
		fatal2("%v", err)
	}
	var file struct {
		Property string          `json:"property"`
		Variant  string          `json:"variant"`
		Case     json.RawMessage `json:"case"`
	}
	if err := json.Unmarshal(data, &file); err != nil {
		fatal2("%v", err)
	}
	spec, ok := props[file.Property]
	if !ok {
		fatal2("unknown property %q in replay file", file.Property)
	}
	if file.Variant == "" {
		file.Variant = "default"
	}
	ln := parseLane(file.Variant, spec)
	b, err := buildEngine(ln.engine, ln.variant)
	if err != nil {
		fatal2("%v", err)
	}
	defer b.cleanup()
	b.profile = ln.profile
	r, err := replayCase(b, file.Property, file.Case)
	if err != nil {
		fatal2("%v", err)
	}
	for _, l := range r.Trace {
		fmt.Println("  ", l)
	}
	fmt.Printf("outcome=%s steps=%d digest=%s\n", r.Outcome, r.Steps, r.Digest)
	if r.Outcome == "violation" {
		fmt.Printf("VIOLATION property=%s replay=%s\n  clause=%s: %s\n", file.Property, args[0], r.clause(), r.detail())
		return 1
	}
	if r.Outcome == "known" {
		for _, v := range r.Violations {
			if k := matchKnownV(knownAll, file.Property, v, r.Known); k != nil {
				fmt.Printf("KNOWN-FINDING: property=%s %s\n", file.Property, k.What)
			}
		}
	}
	if r.Outcome == "infra" {
		fmt.Fprintln(os.Stderr, r.Infra)
		return 2
	}
	return 0
}

// ---- trace: run the case of one run seed and print its event log (debugging aid) -------------------

// cmdTrace: verif trace <prop> --run-seed <n> [--lane <key>] [--tier thorough]. The run seed is the per-run seed printed
// with a violation (seed=...), not the batch seed.
func cmdTrace(args []string) int {
	var prop, laneKey string
	var seed uint64
	thorough := false
	for i := 0; i < len(args); i++ {
		switch args[i] {
		case "--run-seed":
			i++
			seed, _ = strconv.ParseUint(args[i], 10, 64)
		case "--lane":
			i++
			laneKey = args[i]
		case "--tier":
			i++
			thorough = args[i] == "thorough"
		default:
			prop = args[i]
		}
	}
	spec, ok := props[prop]
	if !ok {
		fatal2("no check for property %q", prop)
	}
	if laneKey == "" {
		laneKey = "default"
	}
	ln := parseLane(laneKey, spec)
	b, err := buildEngine(ln.engine, ln.variant)
	if err != nil {
		fatal2("%v", err)
	}
	defer b.cleanup()
	rs, err := runWorker(b.bin, map[string]any{"mode": "gen", "property": prop, "seed": seed, "thorough": thorough, "count": 1, "profile": ln.profile, "emit_case": true}, 600*time.Second, "VERIF_FULLTRACE=1")
	if err != nil {
		fatal2("%v", err)
	}
	r := rs[0]
	for _, l := range r.Trace {
		fmt.Println("  ", l)
	}
	fmt.Printf("outcome=%s steps=%d digest=%s probes=%v\n", r.Outcome, r.Steps, r.Digest, r.Probes)
	if out := os.Getenv("VERIF_SAVE_CASE"); out != "" {
		cj := r.caseJSON
		if cj == nil && r.Sample != nil {
			cj, _ = json.Marshal(r.Sample)
		}
		var c any
		if decodeJSON(cj, &c) == nil {
			writeJSON(out, map[string]any{"property": prop, "variant": laneKey, "case": c})
			fmt.Println("case written to", out)
		}
	}
	return 0
}

// ---- determinism self-test -----------------------------------------------------------------------

func cmdSelftest(args []string) int {
	prop, f := parseFlags(args)
	spec, ok := props[prop]
	if !ok {
		fatal2("no check for property %q", prop)
	}
	if f.seeds == 0 {
		f.seeds = 30
	}
	// every lane of the property (build variants, second engines) takes part: seed i runs on lane i mod n
	var lanes []lane
	builds := map[string]*build{}
	for _, l := range laneSchedule(spec) {
		if builds[l.key] != nil {
			continue
		}
		bv, err := buildEngine(l.engine, l.variant)
		if err != nil {
			fatal2("%v", err)
		}
		defer bv.cleanup()
		builds[l.key] = bv
		lanes = append(lanes, l)
	}
	type key struct {
		seed uint64
	}
	var mu sync.Mutex
	digests := map[uint64]map[string]int{}
	var wg sync.WaitGroup
	sem := make(chan struct{}, numWorkers())
	var errs []string
	for i := 0; i < f.seeds; i++ {
		seed := seedFor(f.seed, i)
		ln := lanes[i%len(lanes)]
		b := builds[ln.key]
		for _, procs := range []string{"1", "4", "16"} {
			wg.Add(1)
			sem <- struct{}{}
			go func() {
				defer wg.Done()
				defer func() { <-sem }()
				rs, err := runWorker(b.bin, map[string]any{"mode": "gen", "property": prop, "seed": seed, "count": 1, "profile": ln.profile}, 180*time.Second, "GOMAXPROCS="+procs, "VERIF_SELFTEST=1")
				mu.Lock()
				defer mu.Unlock()
				if err != nil {
					errs = append(errs, err.Error())
					return
				}
				if digests[seed] == nil {
					digests[seed] = map[string]int{}
				}
				digests[seed][rs[0].Digest+"/"+rs[0].Hash+"/"+strconv.Itoa(rs[0].Steps)]++
			}()
		}
	}
	wg.Wait()
	bad := 0
	for seed, m := range digests {
		if len(m) != 1 {
			bad++
			fmt.Printf("NONDETERMINISTIC seed=%d: %v\n", seed, m)
		}
	}
	fmt.Printf("selftest %s: %d seeds x 3 processes (GOMAXPROCS 1/4/16) over %d lanes, %d diverged, %d errors\n", prop, len(digests), len(lanes), bad, len(errs))
	for _, e := range errs {
		fmt.Println("error:", firstLine(e))
	}
	if bad > 0 || len(errs) > 0 {
		return 2
	}
	return 0
}

var _ = errors.New

// numWorkers is the number of parallel worker processes: all cores unless VERIF_WORKERS says otherwise.
func numWorkers() int {
	if v, err := strconv.Atoi(os.Getenv("VERIF_WORKERS")); err == nil && v > 0 {
		return v
	}
	return runtime.NumCPU()
}

module verif/cmd/verif

go 1.26
